package queue

// C08 — a message signed by maddy's DKIM signer verifies at the next hop after
// it went through the queue spool and maddy's SMTP client.
//
// Per case: a generated RFC 5322 message is parsed the way the SMTP endpoint
// does (textproto.ReadHeader + body), signed by the real modify.dkim module
// (New + Init from configuration text, generated keys), handed to the real
// queue, delivered by the real target.smtp (smtpconn) to a scripted go-smtp
// server on a unix socket, either on the first attempt or - after a scripted
// temporary failure - on a retry that reloads header and body from the spool.
// The raw DATA payload the server received is verified with the published key
// by two verifiers (go-msgauth, and the independent vdkim); tampered copies of
// the payload must be rejected by both.

import (
	"bufio"
	"bytes"
	"context"
	"encoding/json"
	"errors"
	"fmt"
	"io"
	"os"
	"path/filepath"
	"strconv"
	"strings"
	"sync"
	"testing"
	"time"

	"github.com/emersion/go-message/textproto"
	"github.com/emersion/go-msgauth/dkim"
	"github.com/emersion/go-smtp"
	"github.com/foxcpp/maddy/framework/buffer"
	parser "github.com/foxcpp/maddy/framework/cfgparser"
	"github.com/foxcpp/maddy/framework/config"
	"github.com/foxcpp/maddy/framework/log"
	"github.com/foxcpp/maddy/framework/module"
	mdkim "github.com/foxcpp/maddy/internal/modify/dkim"
	tsmtp "github.com/foxcpp/maddy/internal/target/smtp"
	"github.com/foxcpp/maddy/internal/verif/peers"
	"github.com/foxcpp/maddy/internal/verif/vdkim"
	"github.com/foxcpp/maddy/internal/verif/vx"
	"golang.org/x/net/idna"
)

type c08Case struct {
	Key     string   `json:"key"`          // rsa2048, ed25519
	HC      string   `json:"header_canon"` // relaxed, simple
	BC      string   `json:"body_canon"`
	EAI     bool     `json:"smtputf8"`
	IDN     bool     `json:"idn_domain"`
	Reload  bool     `json:"delivered_from_spool"` // first attempt fails temporarily, the retry reads the spool
	Fields  []c08Str `json:"header_fields"`        // complete raw fields, CRLF-terminated
	Body    c08Str   `json:"body"`
	BodyTag string   `json:"body_kind"`
}

// c08Str keeps arbitrary bytes intact in JSON (Go-quoted inside the JSON string).
type c08Str string

func (s c08Str) MarshalJSON() ([]byte, error) {
	return json.Marshal(strconv.QuoteToASCII(string(s)))
}

func (s *c08Str) UnmarshalJSON(b []byte) error {
	var q string
	if err := json.Unmarshal(b, &q); err != nil {
		return err
	}
	u, err := strconv.Unquote(q)
	if err != nil {
		return err
	}
	*s = c08Str(u)
	return nil
}

const (
	c08Selector  = "sel"
	c08ASCIIDom  = "sender.example"
	c08IDNDomain = "пример.рф"
)

// ---- the world shared by the cases of one process --------------------------------------

type c08World struct {
	dir      string
	mods     map[string]module.Modifier
	q        *Queue
	w        *peers.World
	stop     func()
	mu       sync.Mutex
	failOnce map[string]bool // sender -> fail the first DATA
	attempts chan string     // sender of every finished DATA
}

var c08W *c08World

func c08Setup() (*c08World, error) {
	if c08W != nil {
		return c08W, nil
	}
	dir, err := os.MkdirTemp(os.Getenv("VERIF_SCRATCH"), "c08-")
	if err != nil {
		return nil, err
	}
	cw := &c08World{dir: dir, mods: map[string]module.Modifier{}, failOnce: map[string]bool{}, attempts: make(chan string, 64)}
	cw.w = peers.NewWorld(peers.NewPKI())
	sock := filepath.Join(dir, "mx.sock")
	cw.stop, err = cw.w.AddUnix(peers.Script{Host: "mx.dest.example", SMTPUTF8: true, DataHook: func(t peers.Txn) *smtp.SMTPError {
		cw.mu.Lock()
		fail := cw.failOnce[t.From]
		delete(cw.failOnce, t.From)
		cw.mu.Unlock()
		if fail {
			return peers.Err(451, [3]int{4, 3, 0}, "try again")
		}
		return nil
	}}, sock)
	if err != nil {
		return nil, err
	}
	nodes, err := parser.Read(strings.NewReader("hostname mx.verif.example\ntargets unix://"+sock+"\nstarttls no\n"), "c08")
	if err != nil {
		return nil, err
	}
	dm, err := tsmtp.NewDownstream("target.smtp", "c08", nil, nil)
	if err != nil {
		return nil, err
	}
	if err := dm.Init(config.NewMap(map[string]interface{}{}, config.Node{Children: nodes})); err != nil {
		return nil, err
	}
	mod, _ := NewQueue("", "queue", nil, nil)
	q := mod.(*Queue)
	q.initialRetryTime = 0
	q.retryTimeScale = 1
	q.postInitDelay = 0
	q.maxTries = 3
	q.location = filepath.Join(dir, "spool")
	if err := os.MkdirAll(q.location, 0o700); err != nil {
		return nil, err
	}
	q.Target = &c08Tap{inner: dm.(module.DeliveryTarget), cw: cw}
	// as a queue initialised from configuration has them (hostname is a required directive)
	q.hostname = "mx.verif.example"
	q.autogenMsgDomain = "verif.example"
	q.Log = log.Logger{Out: log.NopOutput{}}
	if err := q.start(1); err != nil {
		return nil, err
	}
	cw.q = q
	c08W = cw
	return cw, nil
}

// c08Tap forwards to the real target and reports the end of each attempt.
type c08Tap struct {
	inner module.DeliveryTarget
	cw    *c08World
}

type c08TapDelivery struct {
	module.Delivery
	cw   *c08World
	from string
}

func (t *c08Tap) Name() string         { return "c08tap" }
func (t *c08Tap) InstanceName() string { return "c08tap" }
func (t *c08Tap) Init(*config.Map) error { return nil }
func (t *c08Tap) Start(ctx context.Context, m *module.MsgMetadata, from string) (module.Delivery, error) {
	d, err := t.inner.Start(ctx, m, from)
	if err != nil {
		t.cw.attempts <- from
		return nil, err
	}
	return &c08TapDelivery{Delivery: d, cw: t.cw, from: from}, nil
}
func (d *c08TapDelivery) Commit(ctx context.Context) error {
	err := d.Delivery.Commit(ctx)
	d.cw.attempts <- d.from
	return err
}
func (d *c08TapDelivery) Abort(ctx context.Context) error {
	err := d.Delivery.Abort(ctx)
	d.cw.attempts <- d.from
	return err
}

func (cw *c08World) modifier(c c08Case) (module.Modifier, error) {
	k := c.Key + "/" + c.HC + "/" + c.BC
	if m, ok := cw.mods[k]; ok {
		return m, nil
	}
	kd := filepath.Join(cw.dir, "keys-"+strings.ReplaceAll(c.Key, ":", "_"))
	algo := c.Key
	if strings.HasPrefix(c.Key, "pre:") {
		// "pre:<type of the existing key>:<newkey_algo of the configuration>": the key files were
		// provisioned earlier (here: generated by a first instance), the operator keeps the DNS
		// record elsewhere, and the module is started on them with a newkey_algo of its own
		p := strings.Split(c.Key, ":")
		txt0 := fmt.Sprintf("domains %s %s\nselector %s\nkey_path %s/{domain}_{selector}.key\nnewkey_algo %s\n", c08ASCIIDom, c08IDNDomain, c08Selector, kd, p[1])
		n0, err := parser.Read(strings.NewReader(txt0), "c08")
		if err != nil {
			return nil, err
		}
		m0, _ := mdkim.New("modify.dkim", "c08pre", nil, nil)
		if err := m0.(*mdkim.Modifier).Init(config.NewMap(map[string]interface{}{}, config.Node{Children: n0})); err != nil {
			return nil, err
		}
		os.MkdirAll(filepath.Join(kd, "operator"), 0o700)
		es, _ := os.ReadDir(kd)
		for _, e := range es {
			if strings.HasSuffix(e.Name(), ".dns") {
				os.Rename(filepath.Join(kd, e.Name()), filepath.Join(kd, "operator", e.Name()))
			}
		}
		algo = p[2]
	}
	txt := fmt.Sprintf("domains %s %s\nselector %s\nkey_path %s/{domain}_{selector}.key\nheader_canon %s\nbody_canon %s\nnewkey_algo %s\n",
		c08ASCIIDom, c08IDNDomain, c08Selector, kd, c.HC, c.BC, algo)
	if strings.HasPrefix(c.Key, "sub:") {
		// "sub:<algo>": one signing domain whose key also signs for its subdomains; the sender
		// is in a subdomain, the key record is published at the signing domain only
		txt = fmt.Sprintf("domains %s\nsign_subdomains yes\nselector %s\nkey_path %s/{domain}_{selector}.key\nheader_canon %s\nbody_canon %s\nnewkey_algo %s\n",
			c08ASCIIDom, c08Selector, kd, c.HC, c.BC, strings.TrimPrefix(c.Key, "sub:"))
	}
	nodes, err := parser.Read(strings.NewReader(txt), "c08")
	if err != nil {
		return nil, err
	}
	m, err := mdkim.New("modify.dkim", "c08", nil, nil)
	if err != nil {
		return nil, err
	}
	mm := m.(*mdkim.Modifier)
	if err := mm.Init(config.NewMap(map[string]interface{}{}, config.Node{Children: nodes})); err != nil {
		return nil, err
	}
	cw.mods[k] = mm
	return mm, nil
}

// lookup is the DNS of the next hop: the records maddy wrote next to the keys.
func (cw *c08World) lookup(key string) func(selector, domain string) (string, error) {
	return func(selector, domain string) (string, error) {
		ad, err := idna.ToASCII(domain)
		if err != nil {
			return "", err
		}
		var file string
		switch strings.ToLower(ad) {
		case c08ASCIIDom:
			file = c08ASCIIDom
		case "xn--e1afmkfd.xn--p1ai":
			file = c08IDNDomain
		default:
			return "", errors.New("NXDOMAIN " + domain)
		}
		if selector != c08Selector {
			return "", errors.New("NXDOMAIN selector " + selector)
		}
		kd := filepath.Join(cw.dir, "keys-"+strings.ReplaceAll(key, ":", "_"))
		b, err := os.ReadFile(filepath.Join(kd, file+"_"+c08Selector+".dns"))
		if err != nil && strings.HasPrefix(key, "pre:") {
			// maddy wrote no record for the provisioned key: the operator's record is published
			b, err = os.ReadFile(filepath.Join(kd, "operator", file+"_"+c08Selector+".dns"))
		}
		return string(b), err
	}
}

func c08Ours(domain string) bool {
	ad, err := idna.ToASCII(domain)
	if err != nil {
		return false
	}
	ad = strings.ToLower(ad)
	return ad == c08ASCIIDom || ad == "xn--e1afmkfd.xn--p1ai"
}

// c08VerifyBoth: exactly one signature of the signing domain, valid for both verifiers
// (signatures of other domains that were in the message before are not judged).
func c08VerifyBoth(cw *c08World, key string, payload []byte) (ok bool, why string) {
	res, err := vdkim.Verify(payload, cw.lookup(key))
	if err != nil {
		return false, "vdkim: " + err.Error()
	}
	n := 0
	for _, r := range res {
		if !c08Ours(r.Domain) {
			continue
		}
		n++
		if !r.OK {
			return false, "vdkim: " + r.Reason
		}
	}
	if n != 1 {
		return false, fmt.Sprintf("vdkim: %d signatures of the signing domain", n)
	}
	vs, err := dkim.VerifyWithOptions(bytes.NewReader(payload), &dkim.VerifyOptions{LookupTXT: func(name string) ([]string, error) {
		parts := strings.SplitN(name, "._domainkey.", 2)
		if len(parts) != 2 {
			return nil, errors.New("bad query " + name)
		}
		rec, err := cw.lookup(key)(parts[0], strings.TrimSuffix(parts[1], "."))
		if err != nil {
			return nil, err
		}
		return []string{rec}, nil
	}})
	if err != nil {
		return false, "go-msgauth: " + err.Error()
	}
	n = 0
	for _, v := range vs {
		if !c08Ours(v.Domain) {
			continue
		}
		n++
		if v.Err != nil {
			return false, "go-msgauth: " + v.Err.Error()
		}
	}
	if n != 1 {
		return false, fmt.Sprintf("go-msgauth: %d signatures of the signing domain", n)
	}
	return true, ""
}

// c08Run returns a fingerprint, a detail, and an outcome note.
func c08Run(n int, c c08Case) (fp, detail, note string) {
	cw, err := c08Setup()
	if err != nil {
		return "HARNESS", err.Error(), ""
	}
	raw := ""
	for _, f := range c.Fields {
		raw += string(f)
	}
	raw += "\r\n" + string(c.Body)
	br := bufio.NewReader(strings.NewReader(raw))
	hdr, err := textproto.ReadHeader(br)
	if err != nil {
		return "", "", "rejected-at-submission"
	}
	body, _ := io.ReadAll(br)
	if string(body) != string(c.Body) {
		return "HARNESS", "body changed by header parsing", ""
	}
	dom := c08ASCIIDom
	if c.IDN {
		dom = c08IDNDomain
	}
	if strings.HasPrefix(c.Key, "sub:") {
		dom = "lists." + c08ASCIIDom
	}
	from := fmt.Sprintf("s%d-%d@%s", os.Getpid(), n, dom)
	meta := &module.MsgMetadata{ID: fmt.Sprintf("c08-%d-%d", os.Getpid(), n), SMTPOpts: smtp.MailOptions{UTF8: c.EAI}}
	mod, err := cw.modifier(c)
	if err != nil {
		return "HARNESS", "modifier: " + err.Error(), ""
	}
	ctx := context.Background()
	st, err := mod.ModStateForMsg(ctx, meta)
	if err != nil {
		return "HARNESS", err.Error(), ""
	}
	if _, err := st.RewriteSender(ctx, from); err != nil {
		return "HARNESS", err.Error(), ""
	}
	signStart := time.Now().Unix() // the signer is asked to sign no earlier than this second
	if err := st.RewriteBody(ctx, &hdr, buffer.MemoryBuffer{Slice: body}); err != nil {
		return "", "", "signer-refused"
	}
	st.Close()
	if sig := hdr.Get("DKIM-Signature"); sig != "" {
		// the signature is valid for the configured time (default sig_expiry: 5 days) counted
		// from the moment of signing, however long the signer has been running
		var xs int64
		for _, tag := range strings.Split(sig, ";") {
			kv := strings.SplitN(strings.TrimSpace(tag), "=", 2)
			if len(kv) == 2 && strings.TrimSpace(kv[0]) == "x" {
				xs, _ = strconv.ParseInt(strings.TrimSpace(kv[1]), 10, 64)
			}
		}
		// real time enters only as a lower bound: the expiry is computed after signStart
		if xs != 0 && xs < signStart+5*86400 {
			return "C08:signature-expires-early", fmt.Sprintf("asked to sign at %d, signature expires at x=%d: %d s before the configured 5 days (432000 s) are over", signStart, xs, signStart+5*86400-xs), ""
		}
	}
	if !hdr.Has("DKIM-Signature") {
		return "C08:not-signed", "the signer added no signature", ""
	}

	wantAttempts := 1
	if c.Reload {
		wantAttempts = 2
		cw.mu.Lock()
		cw.failOnce[from] = true
		cw.mu.Unlock()
	}
	d, err := cw.q.Start(ctx, meta, from)
	if err != nil {
		return "HARNESS", err.Error(), ""
	}
	if err := d.AddRcpt(ctx, "rcpt@dest.example", smtp.RcptOptions{}); err != nil {
		return "HARNESS", err.Error(), ""
	}
	if err := d.Body(ctx, hdr, buffer.MemoryBuffer{Slice: body}); err != nil {
		return "HARNESS", "queue Body: " + err.Error(), ""
	}
	if err := d.Commit(ctx); err != nil {
		return "HARNESS", err.Error(), ""
	}
	deadline := time.After(60 * time.Second)
	for got := 0; got < wantAttempts; {
		select {
		case f := <-cw.attempts:
			if f == from {
				got++
			}
		case <-deadline:
			return "HARNESS", "delivery attempts did not finish", ""
		}
	}
	var payload []byte
	seen := 0
	for _, t := range cw.w.Txns() {
		if t.From != from {
			continue
		}
		seen++
		if t.DataOK {
			payload = t.Data
		}
	}
	cw.w.Forget()
	if payload == nil {
		return "", "", fmt.Sprintf("next-hop-refused(%d)", seen)
	}
	if seen != wantAttempts {
		return "HARNESS", fmt.Sprintf("%d transactions at the next hop, want %d", seen, wantAttempts), ""
	}
	if !c.EAI {
		fields, _, _ := vdkim.Split(payload)
		for _, f := range fields {
			if strings.EqualFold(f.Name, "DKIM-Signature") {
				for i := 0; i < len(f.Raw); i++ {
					if f.Raw[i] >= 0x80 {
						return "C08:non-ascii-signature-in-non-eai-message", fmt.Sprintf("signature field %q", f.Raw), ""
					}
				}
			}
		}
	}
	ok, why := c08VerifyBoth(cw, c.Key, payload)
	if !ok {
		kind := "first-attempt"
		if c.Reload {
			kind = "after-spool-reload"
		}
		return "C08:verification-failed:" + kind, fmt.Sprintf("%s\nreceived payload: %q", why, payload), ""
	}

	// ---- tampering at the next hop -----------------------------------------------------
	fields, pbody, err := vdkim.Split(payload)
	if err != nil {
		return "HARNESS", "split: " + err.Error(), ""
	}
	res, _ := vdkim.Verify(payload, cw.lookup(c.Key))
	signed := map[string]int{}
	for _, rr := range res {
		if c08Ours(rr.Domain) {
			for _, h := range rr.Signed {
				signed[strings.ToLower(h)]++
			}
		}
	}
	present := map[string]int{}
	for _, f := range fields {
		present[strings.ToLower(f.Name)]++
	}
	build := func(fs []vdkim.Field, b []byte) []byte {
		var sb bytes.Buffer
		for _, f := range fs {
			sb.WriteString(f.Raw)
		}
		sb.WriteString("\r\n")
		sb.Write(b)
		return sb.Bytes()
	}
	tampered := 0
	for name, cnt := range signed {
		if name == "dkim-signature" {
			continue
		}
		if present[name] > 0 {
			// remove the last instance, alter the last instance
			last := -1
			for i, f := range fields {
				if strings.ToLower(f.Name) == name {
					last = i
				}
			}
			rm := append(append([]vdkim.Field{}, fields[:last]...), fields[last+1:]...)
			if ok, _ := c08VerifyBoth(cw, c.Key, build(rm, pbody)); ok {
				return "C08:tamper-accepted:removed-signed-field", fmt.Sprintf("removing %q left the signature valid\npayload: %q", name, payload), ""
			}
			alt := append([]vdkim.Field{}, fields...)
			alt[last].Raw = strings.TrimSuffix(alt[last].Raw, "\r\n") + "X\r\n"
			if ok, _ := c08VerifyBoth(cw, c.Key, build(alt, pbody)); ok {
				return "C08:tamper-accepted:altered-signed-field", fmt.Sprintf("altering %q left the signature valid\npayload: %q", name, payload), ""
			}
			tampered += 2
		}
		if cnt > present[name] {
			// over-signed: one more instance must break the signature, at the top or at the bottom
			extra := vdkim.Field{Name: name, Raw: name + ": injected\r\n"}
			top := append([]vdkim.Field{extra}, fields...)
			bottom := append(append([]vdkim.Field{}, fields...), extra)
			for _, v := range [][]vdkim.Field{top, bottom} {
				if ok, _ := c08VerifyBoth(cw, c.Key, build(v, pbody)); ok {
					return "C08:tamper-accepted:added-oversigned-field", fmt.Sprintf("adding a %q field left the signature valid\npayload: %q", name, payload), ""
				}
			}
			tampered += 2
		}
	}
	// the documented default set of over-signed fields: one more instance in front of the
	// message must break the signature whether or not the field was present
	for _, name := range c08Oversigned {
		extra := vdkim.Field{Name: name, Raw: name + ": injected\r\n"}
		top := append([]vdkim.Field{extra}, fields...)
		if ok, _ := c08VerifyBoth(cw, c.Key, build(top, pbody)); ok {
			kind := "absent-field"
			if present[strings.ToLower(name)] > 0 {
				kind = "present-field"
			}
			return "C08:tamper-accepted:prepended-oversigned-field:" + kind, fmt.Sprintf("prepending a %q field left the signature valid\npayload: %q", name, payload), ""
		}
		tampered++
	}
	if ok, _ := c08VerifyBoth(cw, c.Key, build(fields, append(append([]byte{}, pbody...), []byte("added line\r\n")...))); ok {
		return "C08:tamper-accepted:altered-body", fmt.Sprintf("payload: %q", payload), ""
	}
	return "", "", fmt.Sprintf("verified+%d-tampered-copies-rejected", tampered)
}

// ---- message grammar -----------------------------------------------------------------------

type c08Part struct {
	tag    string
	fields []string
	eai    bool // needs SMTPUTF8
}

func c08Froms(dom string) []c08Part {
	return []c08Part{
		{"plain", []string{"From: <a@" + dom + ">\r\n"}, false},
		{"folded-name", []string{"From: \"A. Sender\"\r\n <a@" + dom + ">\r\n"}, false},
		{"upper-nospace", []string{"FROM:a@" + dom + "\r\n"}, false},
		{"utf8-name", []string{"From: Отправитель <a@" + dom + ">\r\n"}, true},
		{"tab-fold", []string{"From:\r\n\ta@" + dom + "\r\n"}, false},
	}
}

var c08Subjects = []c08Part{
	{"absent", nil, false},
	{"plain", []string{"Subject: hello world\r\n"}, false},
	{"empty", []string{"Subject:\r\n"}, false},
	{"empty-space", []string{"Subject: \r\n"}, false},
	{"spaced", []string{"Subject:   two  spaces\tand tab   \r\n"}, false},
	{"folded", []string{"Subject: part one\r\n part two\r\n\tpart three\r\n"}, false},
	{"fold-after-colon", []string{"Subject:\r\n folded at once\r\n"}, false},
	{"fold-wsp-only-line", []string{"Subject: a\r\n \r\n b\r\n"}, false},
	{"long", []string{"Subject: " + strings.Repeat("x", 980) + "\r\n"}, false},
	{"repeated", []string{"Subject: first\r\n", "Subject: second\r\n"}, false},
	{"lower-name", []string{"subject: lower-case name\r\n"}, false},
	{"latin1", []string{"Subject: caf\xe9 au lait\r\n"}, false},
	{"utf8", []string{"Subject: тема письма ✓\r\n"}, true},
	{"encoded-word", []string{"Subject: =?utf-8?b?0YLQtdC80LA=?=\r\n"}, false},
	{"trailing-semicolon-colon", []string{"Subject: a: b; c=d;\r\n"}, false},
}

var c08Tos = []c08Part{
	{"plain", []string{"To: <rcpt@dest.example>\r\n"}, false},
	{"absent", nil, false},
	{"folded-list", []string{"To: <rcpt@dest.example>,\r\n <other@dest.example>,\r\n\t<third@dest.example>\r\n"}, false},
}

var c08Extras = []c08Part{
	{"none", nil, false},
	{"received-twice", []string{"Received: from a by b; Thu, 1 Oct 2026 00:00:00 +0000\r\n", "Received: from c\r\n by d; Thu, 1 Oct 2026 00:00:01 +0000\r\n"}, false},
	{"list-id-date-msgid", []string{"List-Id: <list.dest.example>\r\n", "Date: Thu, 01 Oct 2026 00:00:00 +0000\r\n", "Message-Id: <1@" + c08ASCIIDom + ">\r\n"}, false},
	{"unsigned-empty-and-mime", []string{"X-Empty:\r\n", "MIME-Version: 1.0\r\n", "Content-Type: text/plain;\r\n charset=utf-8\r\n", "Content-Transfer-Encoding: 8bit\r\n"}, false},
	{"existing-signature", []string{"DKIM-Signature: v=1; a=rsa-sha256; d=other.example; s=x; h=from; bh=AAAA; b=AAAA\r\n"}, false},
	// more than 1 MiB of unsigned fields above the author's fields (the signed fields sit at the end of the header)
	{"huge-pad", c08Pad(1060), false},
}

func c08Pad(n int) []string {
	var fs []string
	for i := 0; i < n; i++ {
		fs = append(fs, fmt.Sprintf("X-Pad-%04d: %s\r\n", i, strings.Repeat("p", 985)))
	}
	return fs
}

// docs/reference/modifiers/dkim.md, "Default set of oversigned fields"
var c08Oversigned = []string{"Subject", "To", "From", "Date", "MIME-Version", "Content-Type", "Content-Transfer-Encoding", "Reply-To", "Message-Id", "References", "Autocrypt", "Openpgp"}

type c08Body struct{ tag, body string }

var c08Bodies = []c08Body{
	{"empty", ""},
	{"one-line", "hello\r\n"},
	{"crlf-only", "\r\n"},
	{"trailing-empty-lines", "hello\r\n\r\n\r\n\r\n"},
	{"leading-empty-lines", "\r\n\r\nhello\r\n"},
	{"dot-line", "before\r\n.\r\nafter\r\n"},
	{"dot-first", ".\r\nafter\r\n"},
	{"dotted-words", "..two dots\r\n.one dot\r\n...\r\n"},
	{"dot-last", "text\r\n.\r\n"},
	{"trailing-wsp", "line with spaces   \r\nline with tab\t\r\n \r\n\t\r\n"},
	{"inner-wsp", "a  b\t\tc \t d\r\n"},
	{"long-line", strings.Repeat("y", 998) + "\r\nshort\r\n"},
	{"latin1", "caf\xe9\r\n"},
	{"utf8", "привет ✓\r\n"},
	{"wsp-then-empty-end", "x\r\n  \r\n\r\n"},
	{"from-line", "From here\r\n>From there\r\n"},
	// bodies larger than the 32 KiB copy buffer between the spool file and the SMTP
	// connection, with a line terminator / a leading dot exactly on a buffer boundary
	{"big:crlf-straddles-32768", c08Lines(409) + strings.Repeat("b", 47) + "\r\n" + c08Lines(30)},
	{"big:crlf-straddles-65536", c08Lines(819) + strings.Repeat("b", 15) + "\r\n" + c08Lines(10)},
	{"big:line-ends-at-32768", c08Lines(409) + strings.Repeat("b", 46) + "\r\n" + c08Lines(30)},
	{"big:dot-starts-at-32768", c08Lines(409) + strings.Repeat("b", 46) + "\r\n" + ".dot first\r\n.\r\n" + c08Lines(30)},
	{"big:cr-lf-dot-around-65536", c08Lines(819) + strings.Repeat("b", 14) + "\r\n" + ".x\r\n" + c08Lines(10)},
}

// c08Lines: n lines of 78 letters + CRLF (80 octets each)
func c08Lines(n int) string {
	return strings.Repeat(strings.Repeat("a", 78)+"\r\n", n)
}

func c08Enumerate(thorough bool, emit func(c08Case)) {
	keys := []string{"rsa2048", "ed25519"}
	canons := []string{"relaxed", "simple"}
	for _, key := range keys {
		for _, hc := range canons {
			for _, bc := range canons {
				for _, idn := range []bool{false, true} {
					for _, eai := range []bool{false, true} {
						dom := c08ASCIIDom
						if idn {
							dom = c08IDNDomain
						}
						if idn && !eai {
							// a non-EAI message cannot carry the U-label in From; use the A-label there
							dom = "xn--e1afmkfd.xn--p1ai"
						}
						for fi, fr := range c08Froms(dom) {
							for si, su := range c08Subjects {
								for ti, to := range c08Tos {
									for ei, ex := range c08Extras {
										if !eai && (fr.eai || su.eai || to.eai || ex.eai) {
											continue
										}
										if ex.tag == "huge-pad" && !(fi == 0 && si == 0 && ti == 0) {
											continue
										}
										if !thorough && ex.tag != "huge-pad" {
											// quick: every pair of (from, subject), (subject, to), (subject, extra) shapes, not every quadruple
											if (fi+si+ti)%3 != 0 || (si+ei)%(len(c08Extras)-1) != fi%(len(c08Extras)-1) {
												continue
											}
										}
										var fields []c08Str
										for _, grp := range [][]string{ex.fields, fr.fields, to.fields, su.fields} {
											for _, f := range grp {
												fields = append(fields, c08Str(f))
											}
										}
										for bi, b := range c08Bodies {
											if ex.tag == "huge-pad" && bi != 1 {
												continue
											}
											if strings.HasPrefix(b.tag, "big:") && !(fi == 0 && ti == 0 && ei == 0 && (si == 0 || thorough && si < 3)) {
												// the large bodies go with the plainest header shapes only
												continue
											}
											for _, reload := range []bool{false, true} {
												if !thorough && (bi+si+fi+ti+ei)%2 != 0 && len(b.body) > 0 && !strings.HasPrefix(b.tag, "big:") {
													continue
												}
												emit(c08Case{Key: key, HC: hc, BC: bc, EAI: eai, IDN: idn, Reload: reload, Fields: fields, Body: c08Str(b.body), BodyTag: b.tag})
											}
										}
									}
								}
							}
						}
					}
				}
			}
		}
	}
}

// c08PreProvisioned: key files that existed before the module was started (no .dns file next
// to them), every (key type, configured newkey_algo) pair, plainest message shapes.
func c08PreProvisioned(emit func(c08Case)) {
	for _, kt := range []string{"rsa2048", "ed25519"} {
		for _, algo := range []string{"rsa2048", "ed25519"} {
			for _, canon := range []string{"relaxed", "simple"} {
				for _, reload := range []bool{false, true} {
					fr := c08Froms(c08ASCIIDom)[0]
					var fields []c08Str
					for _, grp := range [][]string{fr.fields, c08Tos[0].fields, c08Subjects[0].fields} {
						for _, f := range grp {
							fields = append(fields, c08Str(f))
						}
					}
					emit(c08Case{Key: "pre:" + kt + ":" + algo, HC: canon, BC: canon, Reload: reload, Fields: fields, Body: c08Str(c08Bodies[1].body), BodyTag: c08Bodies[1].tag})
				}
			}
		}
	}
}

// c08Subdomains: sign_subdomains: the sender is in a subdomain of the one signing domain.
func c08Subdomains(emit func(c08Case)) {
	for _, kt := range []string{"rsa2048", "ed25519"} {
		for _, canon := range []string{"relaxed", "simple"} {
			for _, reload := range []bool{false, true} {
				fr := c08Froms("lists." + c08ASCIIDom)[0]
				var fields []c08Str
				for _, grp := range [][]string{fr.fields, c08Tos[0].fields, c08Subjects[0].fields} {
					for _, f := range grp {
						fields = append(fields, c08Str(f))
					}
				}
				emit(c08Case{Key: "sub:" + kt, HC: canon, BC: canon, Reload: reload, Fields: fields, Body: c08Str(c08Bodies[1].body), BodyTag: c08Bodies[1].tag})
			}
		}
	}
}

func TestVerifC08(t *testing.T) {
	log.DefaultLogger.Out = log.NopOutput{}
	r := vx.Start("C08", "spool+smtp")
	defer r.Finish()
	r.Rule("messages from a grammar of header-field shapes (5 From x 15 Subject x 3 To x 6 groups of further fields incl. more than 1 MiB of padding fields above the signed ones: folding with SP/TAB, fold right after the colon, whitespace-only continuation, empty values, 980-octet values, repeated fields, lower/upper-case names, 8-bit and UTF-8 values, a foreign DKIM-Signature) x 21 bodies (5 of them larger than the 32 KiB copy buffer with a line terminator or a leading dot on a buffer boundary; empty, CRLF only, leading/trailing empty lines, dot lines, trailing and inner whitespace, 998-octet line, 8-bit, UTF-8) x key {rsa2048, ed25519; generated by the module, or provisioned beforehand without a .dns file under either newkey_algo setting; or one signing domain with sign_subdomains and a sender in a subdomain} x header canon x body canon x {ASCII, IDN signing domain} x {SMTPUTF8 on, off} x {first attempt, retry from the spool}; signed by modify.dkim, queued, sent by target.smtp to a scripted server; oracle: the signature does not expire before the configured sig_expiry counted from the moment the signer was asked to sign, whatever the age of the signer instance; payload verifies with go-msgauth and with the independent vdkim verifier against the .dns record maddy wrote, and every tampered copy (signed field removed / altered, over-signed field added at top / bottom, body extended) is rejected by both. Quick tier: a covering subset of field-shape combinations; thorough: the full product")
	if rp := r.Replay(); rp != nil {
		var c c08Case
		if json.Unmarshal(rp, &c) != nil {
			r.HarnessError("bad replay")
			return
		}
		fp, detail, _ := c08Run(0, c)
		r.Eval()
		if fp == "HARNESS" {
			r.HarnessError(detail)
		} else if fp != "" {
			r.Violation(fp, detail, c)
		}
		return
	}
	if r.Replaying() {
		return
	}
	idx := 0
	emit := func(c c08Case) {
		idx++
		if !r.Mine(idx) {
			return
		}
		if os.Getenv("VERIF_C08_COUNT") != "" {
			r.Eval()
			r.Nontrivial(fmt.Sprint(idx))
			return
		}
		fp, detail, note := c08Run(idx, c)
		r.Eval()
		if fp == "HARNESS" {
			r.HarnessError(detail + "\ncase: " + vx.JSON(c))
			return
		}
		if fp != "" {
			r.Violation(fp, detail+"\ncase: "+vx.JSON(c), c)
			return
		}
		r.Outcome(strings.SplitN(strings.SplitN(note, "(", 2)[0], "+", 2)[0])
		if strings.HasPrefix(note, "verified") {
			r.Nontrivial(vx.JSON(c))
		}
		if idx%5003 == 0 || strings.HasPrefix(c.Key, "pre:") {
			r.Sample(map[string]any{"case": c, "observed": note})
		}
	}
	c08Enumerate(vx.Thorough(), emit)
	c08PreProvisioned(emit)
	c08Subdomains(emit)
	r.Bound("cases_enumerated", idx)
	if c08W != nil {
		c08W.q.Close()
		c08W.stop()
		os.RemoveAll(c08W.dir)
	}
}
