package queue

// C18 — failure reports are well-formed, name the right recipients with their
// last status, carry the original header, go to the sender with the null
// return path, and cannot loop. Reports produced by the real queue are parsed
// with Go's net/mail + mime/multipart (independent of go-message which
// generates them) and compared with the reference ledger.

import (
	"bufio"
	"bytes"
	"context"
	"encoding/json"
	"errors"
	"fmt"
	"io"
	"mime"
	"mime/multipart"
	"net/mail"
	stdtextproto "net/textproto"
	"os"
	"path/filepath"
	"sort"
	"strings"
	"testing"

	"github.com/emersion/go-message/textproto"
	"github.com/emersion/go-smtp"
	"github.com/foxcpp/maddy/framework/buffer"
	"github.com/foxcpp/maddy/framework/address"
	"github.com/foxcpp/maddy/framework/exterrors"
	"github.com/foxcpp/maddy/framework/module"
	"github.com/foxcpp/maddy/internal/verif/vx"
)

// last-error alphabet: name -> constructor, expected class (4/5), expected
// enhanced code when the error carries one, expected text fragment
type c18Err struct {
	Name  string
	Make  func() error
	Class int
	Ench  [3]int // zero: error has no usable enhanced code
	Code  int    // 0: error has no basic code
	First func() error // error of the first attempt when it differs from the last one
}

var c18Errs = []c18Err{
	{"perm-plain", func() error { return exterrors.WithTemporary(errors.New("no such user here"), false) }, 5, [3]int{}, 0, nil},
	{"smtp-550-511", func() error {
		return &exterrors.SMTPError{Code: 550, EnhancedCode: exterrors.EnhancedCode{5, 1, 1}, Message: "User unknown"}
	}, 5, [3]int{5, 1, 1}, 550, nil},
	{"smtp-554-multiline", func() error {
		return &exterrors.SMTPError{Code: 554, EnhancedCode: exterrors.EnhancedCode{5, 7, 1}, Message: "Rejected by policy\nsee https://example.org/why\r\nthird line"}
	}, 5, [3]int{5, 7, 1}, 554, nil},
	{"smtp-550-nonascii", func() error {
		return &exterrors.SMTPError{Code: 550, EnhancedCode: exterrors.EnhancedCode{5, 2, 2}, Message: "Boîte pleine — почтовый ящик переполнен"}
	}, 5, [3]int{5, 2, 2}, 550, nil},
	{"smtp-550-no-enhanced", func() error { return &exterrors.SMTPError{Code: 550, Message: "no enhanced code from next hop"} }, 5, [3]int{}, 550, nil},
	{"temp-exhausted", func() error {
		return &exterrors.SMTPError{Code: 451, EnhancedCode: exterrors.EnhancedCode{4, 4, 1}, Message: "try later"}
	}, 4, [3]int{4, 4, 1}, 451, nil},
	{"unclassified-exhausted", func() error { return errors.New("connection reset by peer") }, 4, [3]int{}, 0, nil},
	{"temp-then-perm", func() error {
		return &exterrors.SMTPError{Code: 550, EnhancedCode: exterrors.EnhancedCode{5, 1, 1}, Message: "User unknown after all"}
	}, 5, [3]int{5, 1, 1}, 550, func() error {
		return &exterrors.SMTPError{Code: 451, EnhancedCode: exterrors.EnhancedCode{4, 4, 1}, Message: "try later"}
	}},
	{"wrapped-fields", func() error {
		return exterrors.WithFields(&exterrors.SMTPError{Code: 552, EnhancedCode: exterrors.EnhancedCode{5, 3, 4}, Message: "Message too big"}, map[string]interface{}{"remote_server": "mx.example"})
	}, 5, [3]int{5, 3, 4}, 552, nil},
}

type c18Rcpt struct {
	Addr   string `json:"addr"`   // address the queue delivers to
	Orig   string `json:"orig"`   // address the client used ("" = same)
	Mid    string `json:"mid"`    // intermediate alias for two-level rewriting ("" = none)
	Result string `json:"result"` // "ok" or the name of a c18Errs entry
}

type c18Case struct {
	Rcpts       []c18Rcpt `json:"rcpts"`
	From        string    `json:"from"`
	UTF8        bool      `json:"utf8"`
	Header      string    `json:"header"`
	BounceFault string    `json:"bounce_fault"` // "", start, rcpt, body, commit
}

type c18Parsed struct {
	ctype   string
	params  map[string]string
	parts   []c18Part
	headers mail.Header
}
type c18Part struct {
	hdr  stdtextproto.MIMEHeader
	body []byte
}

func c18Parse(hdr, body []byte) (*c18Parsed, error) {
	msg, err := mail.ReadMessage(io.MultiReader(bytes.NewReader(hdr), bytes.NewReader(body)))
	if err != nil {
		return nil, fmt.Errorf("net/mail: %w", err)
	}
	ct, params, err := mime.ParseMediaType(msg.Header.Get("Content-Type"))
	if err != nil {
		return nil, fmt.Errorf("content-type: %w", err)
	}
	p := &c18Parsed{ctype: ct, params: params, headers: msg.Header}
	if !strings.HasPrefix(ct, "multipart/") {
		return p, nil
	}
	mr := multipart.NewReader(msg.Body, params["boundary"])
	for {
		part, err := mr.NextRawPart()
		if err == io.EOF {
			break
		}
		if err != nil {
			return nil, fmt.Errorf("multipart: %w", err)
		}
		b, err := io.ReadAll(part)
		if err != nil {
			return nil, fmt.Errorf("multipart body: %w", err)
		}
		p.parts = append(p.parts, c18Part{part.Header, b})
	}
	return p, nil
}

// c18Groups parses the delivery-status part into its field groups.
func c18Groups(b []byte) ([]stdtextproto.MIMEHeader, error) {
	var gs []stdtextproto.MIMEHeader
	r := stdtextproto.NewReader(bufio.NewReader(bytes.NewReader(b)))
	for {
		h, err := r.ReadMIMEHeader()
		if len(h) > 0 {
			gs = append(gs, h)
		}
		if err != nil {
			if err == io.EOF {
				return gs, nil
			}
			return gs, err
		}
	}
}

var c18Outcome string // observation class of the last run (vacuity guard)

func c18Run(scratch string, c c18Case) (string, string) {
	c18Outcome = "no-observation"
	dir, err := os.MkdirTemp(scratch, "c18-")
	if err != nil {
		return "HARNESS:tmpdir", err.Error()
	}
	defer os.RemoveAll(dir)
	errOf := map[string]c18Err{}
	for _, e := range c18Errs {
		errOf[e.Name] = e
	}
	res := map[string]string{}
	var addrs []string
	meta := &module.MsgMetadata{SMTPOpts: smtp.MailOptions{UTF8: c.UTF8}, OriginalRcpts: map[string]string{}}
	for _, rc := range c.Rcpts {
		res[rc.Addr] = rc.Result
		addrs = append(addrs, rc.Addr)
		// the map as the pipeline builds it: effective address -> address given to that pipeline level
		switch {
		case rc.Mid != "":
			meta.OriginalRcpts[rc.Addr] = rc.Mid
			meta.OriginalRcpts[rc.Mid] = rc.Orig
		case rc.Orig != "":
			meta.OriginalRcpts[rc.Addr] = rc.Orig
		}
	}
	tgt := &qhTarget{name: "target"}
	tgt.decide = func(d *qhDeliv, stage, rcpt string) int { return qhOK }
	// scripted errors are produced by a wrapper below (qhTarget only knows classes)
	scripted := &c18Target{inner: tgt, res: res, errOf: errOf}
	bounce := &qhTarget{name: "bounce"}
	bounce.decide = func(d *qhDeliv, stage, rcpt string) int {
		if stage == c.BounceFault {
			return qhP
		}
		return qhOK
	}
	hdr := qhHeader(c.Header + "\r\n")
	out := qhRun(func() {
		q, err := qhNewQueue(qhQueueOpts{dir: dir, target: scripted, bounce: bounce, maxTries: 2})
		if err != nil {
			panic(err)
		}
		m := qhMsg{ID: "m1", From: c.From, Rcpts: addrs, Header: hdr, Body: []byte("original body\r\n"), Meta: meta}
		if _, err := qhSubmit(q, m); err != nil {
			panic(err)
		}
	})
	if len(out.Panics) > 0 {
		return "C18:panic:" + vx.PanicSite(out.Panics[0]), out.Panics[0]
	}
	if out.Deadlock || out.StepCap {
		return "C18:hang", fmt.Sprint(out.Blocked)
	}
	if len(bounce.viol) > 0 {
		return "C18:report-typestate", strings.Join(bounce.viol, "; ")
	}
	if fs := qhSpoolFiles(dir); len(fs) != 0 {
		return "C18:spool-not-empty", fmt.Sprint(fs)
	}
	// expected reports: attempt 1 -> permanent failures; attempt 2 -> exhausted temporary ones
	type exp struct{ rc c18Rcpt }
	var first, second []c18Rcpt
	for _, rc := range c.Rcpts {
		if rc.Result == "ok" {
			continue
		}
		if errOf[rc.Result].Class == 5 && errOf[rc.Result].First == nil {
			first = append(first, rc)
		} else {
			second = append(second, rc)
		}
	}
	var expected [][]c18Rcpt
	if c.From != "" {
		if len(first) > 0 {
			expected = append(expected, first)
		}
		if len(second) > 0 {
			expected = append(expected, second)
		}
	}
	for _, d := range tgt.dels {
		if d.Attempt > 2 {
			return "C18:message-resurrected", fmt.Sprintf("attempt %d after terminal outcome", d.Attempt)
		}
	}
	{
		named := 0
		for _, d := range bounce.dels {
			named += len(qhNamed(d.Body))
		}
		c18Outcome = fmt.Sprintf("attempts=%d reports=%d recipients-named=%d", len(tgt.dels), len(bounce.dels), named)
	}
	if len(bounce.dels) != len(expected) {
		return "C18:report-count", fmt.Sprintf("%d report(s) handed to the bounce pipeline, expected %d (sender %q)", len(bounce.dels), len(expected), c.From)
	}
	for i, d := range bounce.dels {
		if d.From != "" {
			return "C18:return-path-not-null", fmt.Sprintf("report sent with envelope sender %q", d.From)
		}
		if c.BounceFault == "start" {
			continue
		}
		if len(d.Offered) != 1 || d.Offered[0] != c.From {
			return "C18:report-recipient", fmt.Sprintf("report addressed to %q, sender of the failed message is %q", d.Offered, c.From)
		}
		if c.BounceFault == "rcpt" {
			if d.Closed != "abort" {
				return "C18:report-not-aborted", d.Closed
			}
			continue
		}
		if !d.BodySeen {
			return "C18:report-no-body", ""
		}
		if c.BounceFault == "body" && d.Closed != "abort" {
			return "C18:report-not-aborted", d.Closed
		}
		p, err := c18Parse(qhSerializeHeader(d.Header), d.Body)
		if err != nil {
			return "C18:malformed:" + strings.SplitN(err.Error(), ":", 2)[0], err.Error() + "\n" + string(qhSerializeHeader(d.Header)) + string(d.Body)
		}
		if p.ctype != "multipart/report" || p.params["report-type"] != "delivery-status" {
			return "C18:malformed:content-type", fmt.Sprintf("%s %v", p.ctype, p.params)
		}
		if len(p.parts) != 3 {
			return "C18:malformed:parts", fmt.Sprintf("%d parts", len(p.parts))
		}
		wantStatusType, wantHdrType := "message/delivery-status", "message/rfc822-headers"
		if c.UTF8 {
			wantStatusType, wantHdrType = "message/global-delivery-status", "message/global-headers"
		}
		if t, _, _ := mime.ParseMediaType(p.parts[1].hdr.Get("Content-Type")); t != wantStatusType {
			return "C18:malformed:status-part-type", t
		}
		if t, _, _ := mime.ParseMediaType(p.parts[2].hdr.Get("Content-Type")); t != wantHdrType {
			return "C18:malformed:header-part-type", t
		}
		if !bytes.Equal(bytes.TrimRight(p.parts[2].body, "\r\n"), bytes.TrimRight(qhSerializeHeader(hdr), "\r\n")) {
			return "C18:original-header-differs", fmt.Sprintf("got %q want %q", p.parts[2].body, qhSerializeHeader(hdr))
		}
		gs, err := c18Groups(p.parts[1].body)
		if err != nil || len(gs) < 1 {
			return "C18:malformed:status-groups", fmt.Sprintf("%v %q", err, p.parts[1].body)
		}
		if gs[0].Get("Reporting-Mta") == "" {
			return "C18:malformed:no-reporting-mta", fmt.Sprintf("%q", p.parts[1].body)
		}
		got := map[string][]stdtextproto.MIMEHeader{}
		var gotNames []string
		for _, g := range gs[1:] {
			fr := g.Get("Final-Recipient")
			kv := strings.SplitN(fr, ";", 2)
			if len(kv) != 2 {
				return "C18:malformed:final-recipient", fr
			}
			a := strings.TrimSpace(kv[1])
			if k, err := address.ForLookup(a); err == nil {
				a = k
			}
			// several failed targets of one rewritten address are reported under
			// that one address, once per target: names are compared as a set
			if _, dup := got[a]; !dup {
				gotNames = append(gotNames, a)
			}
			got[a] = append(got[a], g)
		}
		var wantNames []string
		seenWant := map[string]bool{}
		for _, rc := range expected[i] {
			w := rc.Addr
			if rc.Orig != "" {
				w = rc.Orig
			}
			k, kerr := address.ForLookup(w)
			if kerr != nil {
				k = w
			}
			if !seenWant[k] {
				seenWant[k] = true
				wantNames = append(wantNames, k)
			}
		}
		sort.Strings(gotNames)
		sort.Strings(wantNames)
		if strings.Join(gotNames, ",") != strings.Join(wantNames, ",") {
			kind := "wrong-recipients"
			for _, rc := range expected[i] {
				if rc.Mid != "" {
					if mk, _ := address.ForLookup(rc.Mid); strings.Contains(strings.Join(gotNames, ","), mk) {
						kind = "intermediate-alias-named"
					}
				}
			}
			return "C18:" + kind, fmt.Sprintf("report %d names %v; the sender addressed the terminally failed recipients as %v", i+1, gotNames, wantNames)
		}
		for _, rc := range expected[i] {
			w := rc.Addr
			if rc.Orig != "" {
				w = rc.Orig
			}
			k, _ := address.ForLookup(w)
			e := errOf[rc.Result]
			// one of the groups under this name must describe this recipient's last error
			problem := ""
			for _, g := range got[k] {
				problem = ""
				if g.Get("Action") != "failed" {
					problem = "C18:action|" + g.Get("Action")
					continue
				}
				st := g.Get("Status")
				dc := g.Get("Diagnostic-Code")
				switch {
				case len(st) < 5 || int(st[0]-'0') != e.Class:
					problem = "C18:status-class|" + fmt.Sprintf("recipient %s failed with %s (class %d) but the report says Status: %s", rc.Addr, e.Name, e.Class, st)
				case e.Ench != [3]int{} && st != fmt.Sprintf("%d.%d.%d", e.Ench[0], e.Ench[1], e.Ench[2]):
					problem = "C18:status-detail-lost|" + fmt.Sprintf("recipient %s: last error carried %d.%d.%d, report says Status: %s", rc.Addr, e.Ench[0], e.Ench[1], e.Ench[2], st)
				case e.Code != 0 && !strings.Contains(dc, fmt.Sprint(e.Code)):
					problem = "C18:diagnostic-code|" + fmt.Sprintf("recipient %s: last reply code %d, Diagnostic-Code: %q", rc.Addr, e.Code, dc)
				}
				if problem == "" && !c.UTF8 {
					for _, line := range []string{st, dc, g.Get("Final-Recipient")} {
						if !c01ASCII18(line) {
							problem = "C18:non-ascii-in-non-eai-report|" + line
						}
					}
				}
				if problem == "" {
					break
				}
			}
			if problem != "" {
				kv := strings.SplitN(problem, "|", 2)
				return kv[0], kv[1]
			}
		}
		if c.BounceFault == "" && (d.Closed != "commit" || !d.CommitOK) {
			return "C18:report-not-committed", d.Closed
		}
	}
	return "", ""
}

// c18Chain: the bounce pipeline routes reports into a second real queue whose
// downstream fails; no report about a report may ever be generated.
func c18Chain(scratch string, c c18Case) (string, string) {
	d1, _ := os.MkdirTemp(scratch, "c18a-")
	d2, _ := os.MkdirTemp(scratch, "c18b-")
	defer os.RemoveAll(d1)
	defer os.RemoveAll(d2)
	fail := qhP
	if c.BounceFault == "queue-exhaust" {
		fail = qhT
	}
	t1 := &qhTarget{name: "target", decide: func(d *qhDeliv, stage, rcpt string) int {
		if stage == "rcpt" {
			return qhP
		}
		return qhOK
	}}
	t2 := &qhTarget{name: "target2", decide: func(d *qhDeliv, stage, rcpt string) int {
		if stage == "body" {
			return fail
		}
		return qhOK
	}}
	b2 := &qhTarget{name: "bounce2"}
	out := qhRun(func() {
		q2, err := qhNewQueue(qhQueueOpts{dir: d2, target: t2, bounce: b2, maxTries: 2})
		if err != nil {
			panic(err)
		}
		q1, err := qhNewQueue(qhQueueOpts{dir: d1, target: t1, bounce: q2, maxTries: 2})
		if err != nil {
			panic(err)
		}
		var addrs []string
		for _, rc := range c.Rcpts {
			addrs = append(addrs, rc.Addr)
		}
		m := qhMsg{ID: "m1", From: c.From, Rcpts: addrs, Header: qhHeader(c.Header + "\r\n"), Body: []byte("x\r\n"), Meta: &module.MsgMetadata{SMTPOpts: smtp.MailOptions{UTF8: c.UTF8}}}
		if _, err := qhSubmit(q1, m); err != nil {
			panic(err)
		}
	})
	if len(out.Panics) > 0 {
		return "C18:chain:panic:" + vx.PanicSite(out.Panics[0]), out.Panics[0]
	}
	if out.Deadlock || out.StepCap {
		return "C18:chain:hang-or-loop", fmt.Sprintf("deadlock=%v stepcap=%v: reports: %d deliveries in the report queue, %d reports about reports", out.Deadlock, out.StepCap, len(t2.dels), len(b2.dels))
	}
	if c.From != "" && len(t2.dels) == 0 {
		return "C18:chain:no-report", "the failed message produced no report"
	}
	if len(b2.dels) != 0 {
		return "C18:report-about-report", fmt.Sprintf("the report (null return path) failed in the second queue and %d report(s) about it were generated, addressed to %q", len(b2.dels), b2.dels[0].Offered)
	}
	for _, d := range t2.dels {
		if d.From != "" {
			return "C18:return-path-not-null", d.From
		}
	}
	return "", ""
}

func c01ASCII18(s string) bool {
	for i := 0; i < len(s); i++ {
		if s[i] >= 0x80 {
			return false
		}
	}
	return true
}

// c18Target wraps a qhTarget to fail recipients with concrete error values.
type c18Target struct {
	inner *qhTarget
	res   map[string]string
	errOf map[string]c18Err
}

func (t *c18Target) Name() string         { return "verif_target" }
func (t *c18Target) InstanceName() string { return "c18" }

func TestVerifC18(t *testing.T) {
	r := vx.Start("C18", "reports")
	defer r.Finish()
	scratch := os.Getenv("VERIF_SCRATCH")
	if scratch == "" {
		scratch = os.TempDir()
	}
	scratch = filepath.Join(scratch, fmt.Sprintf("c18-%d", r.Shard))
	os.MkdirAll(scratch, 0o755)
	defer os.RemoveAll(scratch)
	r.Rule("messages with 1-3 recipients; every assignment of a terminal result from {delivered, 8 last-error values (codes, enhanced codes, multi-line, non-ASCII, no enhanced code, wrapped, exhausted temporary/unclassified)} to the recipients; recipients plain / rewritten 1->1 / two recipients rewritten from one address / two-level rewriting chain, ASCII and IDN, EAI on/off; senders normal/null; 3 original headers; report delivery failing at start/rcpt/body/commit; each run on the real queue; every report handed to the bounce pipeline is parsed with net/mail+mime/multipart and compared with the reference ledger (null return path, addressed to the sender, exactly the terminally failed recipients of that attempt under the sender's addresses, Status/Diagnostic-Code = last error, third part = original header). Non-trivial: distinct cases with at least one failed recipient")
	if rp := r.Replay(); rp != nil {
		var c c18Case
		if json.Unmarshal(rp, &c) != nil {
			r.HarnessError("bad replay")
			return
		}
		fp, detail := c18Run(scratch, c)
		if strings.HasPrefix(c.BounceFault, "queue") {
			fp, detail = c18Chain(scratch, c)
		}
		r.Eval()
		if fp != "" {
			r.Violation(fp, detail, c)
		}
		return
	}
	if r.Replaying() {
		return
	}
	results := []string{"ok"}
	for _, e := range c18Errs {
		results = append(results, e.Name)
	}
	headers := []string{
		"From: <s@example.com>\r\nSubject: hi\r\n",
		"Received: from a by b\r\nReceived: from c by d\r\nFrom: S <s@example.com>\r\nSubject: folded\r\n subject\r\nX-8bit: caf\xc3\xa9\r\n",
		"X-Long: " + strings.Repeat("y", 990) + "\r\n",
	}
	idx := 0
	do := func(c c18Case) {
		idx++
		if !r.Mine(idx) {
			return
		}
		var fp, detail string
		if strings.HasPrefix(c.BounceFault, "queue") {
			fp, detail = c18Chain(scratch, c)
		} else {
			fp, detail = c18Run(scratch, c)
		}
		r.Eval()
		failed := false
		for _, rc := range c.Rcpts {
			if rc.Result != "ok" {
				failed = true
			}
		}
		if failed {
			r.Nontrivial(vx.JSON(c))
		}
		if strings.HasPrefix(fp, "HARNESS:") {
			r.HarnessError(fp + detail)
		} else if fp != "" {
			r.Violation(fp, detail+"\ncase: "+vx.JSON(c), c)
		} else if strings.HasPrefix(c.BounceFault, "queue") {
			r.Outcome("report-into-queue chain checked")
		} else {
			r.Outcome(c18Outcome)
		}
		if idx%1009 == 0 {
			r.Sample(c)
		}
	}
	// recipient shapes
	shapes := [][]c18Rcpt{
		{{Addr: "a@example.org"}},
		{{Addr: "a@example.org"}, {Addr: "b@example.org"}},
		{{Addr: "alias-target@example.org", Orig: "a@example.org"}},
		{{Addr: "t1@example.org", Orig: "list@example.org"}, {Addr: "t2@example.org", Orig: "list@example.org"}},
		{{Addr: "final@example.org", Mid: "mid@example.org", Orig: "a@example.org"}, {Addr: "b@example.org"}},
		{{Addr: "a@пример.рф"}, {Addr: "b@example.org", Orig: "b@xn--e1afmkfd.xn--p1ai"}},
		// domains that are no host names in the strict sense but legal in an address: an
		// underscore label, an address literal, letter case as the sender wrote it
		{{Addr: "a@mail_gw.example.org"}, {Addr: "Tester2@MAIL.Example.ORG"}},
		{{Addr: "user@[192.0.2.25]"}, {Addr: "b@example.org"}},
	}
	if vx.Thorough() {
		shapes = append(shapes, []c18Rcpt{{Addr: "a@example.org"}, {Addr: "b@example.org", Orig: "bb@example.org"}, {Addr: "c@пример.рф"}},
			[]c18Rcpt{{Addr: "final@example.org", Mid: "mid@example.org", Orig: "a@example.org"}, {Addr: "t1@example.org", Orig: "list@example.org"}, {Addr: "t2@example.org", Orig: "list@example.org"}})
	}
	for _, sh := range shapes {
		for _, bf := range []string{"queue-perm", "queue-exhaust"} {
			for _, utf8 := range []bool{false, true} {
				rc := append([]c18Rcpt{}, sh...)
				for i := range rc {
					rc[i].Result = "perm-plain"
				}
				do(c18Case{Rcpts: rc, From: "sender@example.com", UTF8: utf8, Header: headers[0], BounceFault: bf})
				do(c18Case{Rcpts: rc, From: "", UTF8: utf8, Header: headers[0], BounceFault: bf})
			}
		}
		// all result assignments
		n := len(sh)
		total := 1
		for i := 0; i < n; i++ {
			total *= len(results)
		}
		for code := 0; code < total; code++ {
			rc := make([]c18Rcpt, n)
			x := code
			for i := range sh {
				rc[i] = sh[i]
				rc[i].Result = results[x%len(results)]
				x /= len(results)
			}
			for _, utf8 := range []bool{false, true} {
				do(c18Case{Rcpts: rc, From: "sender@example.com", UTF8: utf8, Header: headers[code%len(headers)]})
			}
			if code%5 == 1 || vx.Thorough() {
				do(c18Case{Rcpts: rc, From: "", UTF8: false, Header: headers[0]})
				for _, bf := range []string{"start", "rcpt", "body", "commit"} {
					do(c18Case{Rcpts: rc, From: "sender@example.com", UTF8: code%2 == 0, Header: headers[0], BounceFault: bf})
					do(c18Case{Rcpts: rc, From: "", UTF8: false, Header: headers[0], BounceFault: bf})
				}
			}
		}
	}
	r.Bound("last_errors", len(c18Errs))
	r.Bound("recipient_shapes", len(shapes))
}

// ---- the scripted target with concrete error values -------------------------------------

type c18Delivery struct {
	t     *c18Target
	inner module.Delivery
}

func (t *c18Target) Start(ctx context.Context, msgMeta *module.MsgMetadata, mailFrom string) (module.Delivery, error) {
	d, err := t.inner.Start(ctx, msgMeta, mailFrom)
	if err != nil {
		return nil, err
	}
	return &c18Delivery{t, d}, nil
}

func (d *c18Delivery) AddRcpt(ctx context.Context, rcptTo string, o smtp.RcptOptions) error {
	if err := d.inner.AddRcpt(ctx, rcptTo, o); err != nil {
		return err
	}
	if r := d.t.res[rcptTo]; r != "ok" && r != "" {
		if e := d.t.errOf[r]; e.First != nil && d.attempt() == 1 {
			return e.First()
		}
		return d.t.errOf[r].Make()
	}
	return nil
}
func (d *c18Delivery) Body(ctx context.Context, h textproto.Header, b buffer.Buffer) error {
	return d.inner.Body(ctx, h, b)
}
func (d *c18Delivery) Abort(ctx context.Context) error  { return d.inner.Abort(ctx) }
func (d *c18Delivery) Commit(ctx context.Context) error { return d.inner.Commit(ctx) }

func (d *c18Delivery) attempt() int {
	if qd, ok := d.inner.(*qhDelivery); ok {
		return qd.d.Attempt
	}
	return 0
}
