package queue

// C18 (part "nested") — "under the addresses the sender originally used (never the
// targets they were rewritten to)" when recipients are rewritten on both sides of
// the queue: front pipeline (rewriting modifier) -> real queue -> back pipeline
// (rewriting modifier, the queue's target) -> final target reporting per-recipient
// statuses. The queue runs free (retry delay 0, max_tries 1); every combination of
// where each recipient is rewritten and whether the final target refuses it is run.

import (
	"context"
	"encoding/json"
	"fmt"
	"os"
	"path/filepath"
	"sort"
	"strings"
	"sync"
	"testing"
	"time"

	"github.com/emersion/go-message/textproto"
	"github.com/emersion/go-smtp"
	"github.com/foxcpp/maddy/framework/buffer"
	parser "github.com/foxcpp/maddy/framework/cfgparser"
	"github.com/foxcpp/maddy/framework/config"
	"github.com/foxcpp/maddy/framework/exterrors"
	"github.com/foxcpp/maddy/framework/log"
	"github.com/foxcpp/maddy/framework/module"
	"github.com/foxcpp/maddy/internal/msgpipeline"
	"github.com/foxcpp/maddy/internal/verif/vx"
)

type c18nRcpt struct {
	Rewrite string `json:"rewritten"` // none | front | back | both
	Fail    bool   `json:"refused_by_final_target"`
}

type c18nCase struct {
	From  string     `json:"from"`
	Rcpts []c18nRcpt `json:"rcpts"`
}

// rewriting modifier: modify { c18n_rewrite FROM TO FROM TO ... }
type c18nMod struct{ m map[string]string }

func (c18nMod) Name() string           { return "c18n_rewrite" }
func (c18nMod) InstanceName() string   { return "c18n_rewrite" }
func (c18nMod) Init(*config.Map) error { return nil }
func (m c18nMod) ModStateForMsg(context.Context, *module.MsgMetadata) (module.ModifierState, error) {
	return m, nil
}
func (c18nMod) RewriteSender(_ context.Context, from string) (string, error) { return from, nil }
func (m c18nMod) RewriteRcpt(_ context.Context, to string) ([]string, error) {
	if t, ok := m.m[to]; ok {
		return []string{t}, nil
	}
	return []string{to}, nil
}
func (c18nMod) RewriteBody(context.Context, *textproto.Header, buffer.Buffer) error { return nil }
func (c18nMod) Close() error                                                         { return nil }

func init() {
	module.Register("modify.c18n_rewrite", func(_, _ string, _, inlineArgs []string) (module.Module, error) {
		m := c18nMod{m: map[string]string{}}
		for i := 0; i+1 < len(inlineArgs); i += 2 {
			m.m[inlineArgs[i]] = inlineArgs[i+1]
		}
		return m, nil
	})
}

// final target: per-recipient statuses
type c18nFinal struct {
	name string
	mu   sync.Mutex
	fail map[string]bool
	got  []string
}

func (t *c18nFinal) Name() string           { return "c18n_final" }
func (t *c18nFinal) InstanceName() string   { return t.name }
func (t *c18nFinal) Init(*config.Map) error { return nil }
func (t *c18nFinal) Start(context.Context, *module.MsgMetadata, string) (module.Delivery, error) {
	return &c18nFinalD{t: t}, nil
}

type c18nFinalD struct {
	t     *c18nFinal
	rcpts []string
}

func (d *c18nFinalD) AddRcpt(_ context.Context, to string, _ smtp.RcptOptions) error {
	d.rcpts = append(d.rcpts, to)
	return nil
}
func (d *c18nFinalD) Body(ctx context.Context, h textproto.Header, b buffer.Buffer) error {
	return fmt.Errorf("the final target is driven through BodyNonAtomic")
}
func (d *c18nFinalD) BodyNonAtomic(_ context.Context, sc module.StatusCollector, _ textproto.Header, _ buffer.Buffer) {
	d.t.mu.Lock()
	defer d.t.mu.Unlock()
	for _, r := range d.rcpts {
		d.t.got = append(d.t.got, r)
		if d.t.fail[r] {
			sc.SetStatus(r, &exterrors.SMTPError{Code: 550, EnhancedCode: exterrors.EnhancedCode{5, 1, 1}, Message: "no such user here"})
		} else {
			sc.SetStatus(r, nil)
		}
	}
}
func (d *c18nFinalD) Abort(context.Context) error  { return nil }
func (d *c18nFinalD) Commit(context.Context) error { return nil }

var c18nSeq int

func c18nPipeline(cfg string) (*msgpipeline.MsgPipeline, error) {
	nodes, err := parser.Read(strings.NewReader(cfg), "c18n")
	if err != nil {
		return nil, err
	}
	p, err := msgpipeline.New(map[string]interface{}{}, nodes)
	if err != nil {
		return nil, err
	}
	p.Hostname = "mx.verif.example"
	p.Log = log.Logger{Out: log.NopOutput{}}
	return p, nil
}

func c18nRun(scratch string, c c18nCase) (fp, detail, outcome string) {
	c18nSeq++
	dir, err := os.MkdirTemp(scratch, "c18n-")
	if err != nil {
		return "HARNESS", err.Error(), ""
	}
	defer os.RemoveAll(dir)
	final := &c18nFinal{name: fmt.Sprintf("c18n_final_%d_%d", os.Getpid(), c18nSeq), fail: map[string]bool{}}
	var frontMap, backMap []string
	var used, hidden, wantNamed []string
	for i, rc := range c.Rcpts {
		a := fmt.Sprintf("a%d@example.com", i+1)
		cur := a
		if rc.Rewrite == "front" || rc.Rewrite == "both" {
			b := fmt.Sprintf("b%d@example.org", i+1)
			frontMap = append(frontMap, cur, b)
			cur = b
			hidden = append(hidden, b)
		}
		if rc.Rewrite == "back" || rc.Rewrite == "both" {
			t := fmt.Sprintf("c%d@example.net", i+1)
			backMap = append(backMap, cur, t)
			cur = t
			hidden = append(hidden, t)
		}
		used = append(used, a)
		if rc.Fail {
			final.fail[cur] = true
			wantNamed = append(wantNamed, a)
		}
	}
	module.RegisterInstance(final, nil)
	module.Initialized[final.name] = true
	modBlock := func(m []string) string {
		if len(m) == 0 {
			return ""
		}
		return "modify {\n c18n_rewrite " + strings.Join(m, " ") + "\n}\n"
	}
	back, err := c18nPipeline(modBlock(backMap) + "deliver_to &" + final.name + "\n")
	if err != nil {
		return "HARNESS", "back pipeline: " + err.Error(), ""
	}
	bounce := &qhTarget{name: "bounce"}
	mod, _ := NewQueue("", fmt.Sprintf("c18n_queue_%d_%d", os.Getpid(), c18nSeq), nil, nil)
	q := mod.(*Queue)
	q.initialRetryTime = 0
	q.retryTimeScale = 1
	q.postInitDelay = 0
	q.maxTries = 1
	q.location = filepath.Join(dir, "spool")
	os.MkdirAll(q.location, 0o700)
	q.Target = back
	q.dsnPipeline = bounce
	q.hostname = "mx.verif.example"
	q.autogenMsgDomain = "verif.example"
	q.Log = log.Logger{Out: log.NopOutput{}}
	if err := q.start(1); err != nil {
		return "HARNESS", "queue: " + err.Error(), ""
	}
	defer q.Close()
	module.RegisterInstance(q, nil)
	module.Initialized[q.InstanceName()] = true
	front, err := c18nPipeline(modBlock(frontMap) + "deliver_to &" + q.InstanceName() + "\n")
	if err != nil {
		return "HARNESS", "front pipeline: " + err.Error(), ""
	}
	ctx := context.Background()
	meta := &module.MsgMetadata{ID: fmt.Sprintf("c18n%04d", c18nSeq), OriginalFrom: c.From, DontTraceSender: true}
	d, err := front.Start(ctx, meta, c.From)
	if err != nil {
		return "HARNESS", "Start: " + err.Error(), ""
	}
	for _, a := range used {
		if err := d.AddRcpt(ctx, a, smtp.RcptOptions{}); err != nil {
			d.Abort(ctx)
			return "HARNESS", "AddRcpt: " + err.Error(), ""
		}
	}
	hdr := textproto.Header{}
	hdr.Add("Subject", "c18 nested")
	if err := d.Body(ctx, hdr, buffer.MemoryBuffer{Slice: []byte("hello\r\n")}); err != nil {
		d.Abort(ctx)
		return "HARNESS", "Body: " + err.Error(), ""
	}
	if err := d.Commit(ctx); err != nil {
		return "HARNESS", "Commit: " + err.Error(), ""
	}
	// terminal state: the spool is empty (polled; the deadline is a last resort)
	deadline := time.Now().Add(20 * time.Second)
	for len(qhSpoolFiles(q.location)) != 0 {
		if time.Now().After(deadline) {
			return "C18:nested:queue-went-quiet", fmt.Sprintf("spool still holds %v", qhSpoolFiles(q.location)), ""
		}
		time.Sleep(200 * time.Microsecond)
	}
	q.Close()
	// the queue is closed: no delivery to the bounce target is in flight any more
	var named []string
	reports := 0
	for _, bd := range bounce.dels {
		if bd.Closed != "commit" {
			continue
		}
		reports++
		if bd.From != "" {
			return "C18:nested:report-with-return-path", fmt.Sprintf("report sent from %q", bd.From), ""
		}
		if len(bd.Accepted) != 1 || bd.Accepted[0] != c.From {
			return "C18:nested:report-recipient", fmt.Sprintf("report sent to %v, sender was %q", bd.Accepted, c.From), ""
		}
		named = append(named, qhNamed(bd.Body)...)
		for _, h := range hidden {
			if strings.Contains(string(bd.Body), h) {
				return "C18:nested:rewritten-address-disclosed", fmt.Sprintf("the report mentions %s, an address a recipient was rewritten to", h), ""
			}
		}
	}
	sort.Strings(named)
	sort.Strings(wantNamed)
	if c.From == "" {
		if reports != 0 {
			return "C18:nested:report-for-null-sender", fmt.Sprintf("%d report(s) for a message with the null sender", reports), ""
		}
		return "", "", "null sender: no report"
	}
	if strings.Join(named, " ") != strings.Join(wantNamed, " ") {
		kind := "reported-recipients-differ"
		if len(named) < len(wantNamed) {
			kind = "failed-recipient-not-reported"
		}
		return "C18:nested:" + kind, fmt.Sprintf("the final target refused the recipients the sender addressed as %v; %d report(s) name %v (final target saw %v)", wantNamed, reports, named, final.got), ""
	}
	if len(wantNamed) > 0 && reports != 1 {
		return "C18:nested:report-count", fmt.Sprintf("%d reports for one attempt", reports), ""
	}
	return "", "", fmt.Sprintf("failed=%d reports=%d", len(wantNamed), reports)
}

func TestVerifC18Nested(t *testing.T) {
	r := vx.Start("C18", "nested")
	defer r.Finish()
	r.Rule("front pipeline (rewriting modifier) -> real queue (free-running, retry delay 0, max_tries 1, bounce target) -> back pipeline as the queue's target (rewriting modifier) -> final target with per-recipient statuses: 1-2 (thorough: 3) recipients, each rewritten {nowhere, in front of the queue, behind it, on both sides} and {accepted, refused 550} by the final target; ordinary and null sender; oracle: exactly the refused recipients are named, under the addresses the sender used, in one report sent with the null return path to the sender, and no address a recipient was rewritten to appears in the report; none for the null sender")
	scratch, err := os.MkdirTemp("", "c18n")
	if err != nil {
		r.HarnessError(err.Error())
		return
	}
	defer os.RemoveAll(scratch)
	if rp := r.Replay(); rp != nil {
		var c c18nCase
		if json.Unmarshal(rp, &c) != nil || len(c.Rcpts) == 0 {
			return
		}
		fp, detail, _ := c18nRun(scratch, c)
		r.Eval()
		if fp != "" && fp != "HARNESS" {
			r.Violation(fp, detail, c)
		}
		return
	}
	if r.Replaying() {
		return
	}
	var kinds []c18nRcpt
	for _, rw := range []string{"none", "front", "back", "both"} {
		for _, f := range []bool{false, true} {
			kinds = append(kinds, c18nRcpt{rw, f})
		}
	}
	maxN := 2
	if vx.Thorough() {
		maxN = 3
	}
	idx := 0
	var rec func(cur []c18nRcpt)
	rec = func(cur []c18nRcpt) {
		if len(cur) > 0 {
			for _, from := range []string{"sender@example.com", ""} {
				idx++
				if !r.Mine(idx) {
					continue
				}
				c := c18nCase{From: from, Rcpts: append([]c18nRcpt{}, cur...)}
				fp, detail, oc := c18nRun(scratch, c)
				r.Eval()
				r.Nontrivial(vx.JSON(c))
				if fp == "HARNESS" {
					r.HarnessError(detail + " case: " + vx.JSON(c))
					return
				}
				if fp != "" {
					r.Violation(fp, detail+"\ncase: "+vx.JSON(c), c)
					continue
				}
				r.Outcome(oc)
				if idx%17 == 0 {
					r.Sample(c)
				}
			}
		}
		if len(cur) == maxN {
			return
		}
		for _, k := range kinds {
			rec(append(cur, k))
		}
	}
	rec(nil)
}
