package smtp

// C03 — every SMTP/LMTP transaction is finalised exactly once and matches its
// reply. Explicit-state BFS over command sequences on the real endpoint (real
// go-smtp server over a pipe, real pipeline, monitored targets, real limits),
// one persistent injected fault per world.

import (
	"context"
	"os"
	"encoding/json"
	"fmt"
	"net"
	"sort"
	"strings"
	"testing"
	"time"

	"github.com/foxcpp/maddy/framework/config"
	"github.com/foxcpp/maddy/framework/exterrors"
	"github.com/foxcpp/maddy/framework/module"
	"github.com/foxcpp/maddy/internal/verif/mon"
	"github.com/foxcpp/maddy/internal/verif/vsched"
	"github.com/foxcpp/maddy/internal/verif/vx"
)

type c03World struct {
	LMTP   bool   `json:"lmtp"`
	Defer  bool   `json:"defer_sender_reject"`
	Fault  string `json:"fault"` // "", "vt1:body", "vt2:status", "check:rcpt", ...
	Fault2 string `json:"fault2"`
	Perm   int    `json:"map_order"`
	// LogCap > 0: max_logged_rcpt_errors is set to it (default 5: more refused RCPT commands
	// than the explored sequences hold)
	LogCap int `json:"max_logged_rcpt_errors,omitempty"`
}

type c03Case struct {
	World c03World `json:"world"`
	Cmds  []string `json:"commands"`
}

const c03Msg = "From: <a@example.org>\r\nSubject: verif\r\n\r\nbody line\r\n"

var c03ManyReceived = strings.Repeat("Received: from x by y\r\n", 4) + c03Msg

// c03JudgeASCII: additionally judge the ASCII clause of C16 on every reply (set by the C16 part)
var c03JudgeASCII bool

func c03Alphabet(lmtp bool) []string {
	hello := "EHLO client.example"
	if lmtp {
		hello = "LHLO client.example"
	}
	return []string{
		hello,
		"MAIL FROM:<a@example.org>",
		"MAIL FROM:<A@EXAMPLE.ORG>",
		"MAIL FROM:<x@refused.example>",
		"MAIL FROM:<broken",
		"MAIL FROM:<ü@example.org>",
		"RCPT TO:<r1@t1.example>",
		"RCPT TO:<r2@t2.example>",
		"RCPT TO:<r3@both.example>",
		"RCPT TO:<R1@T1.EXAMPLE>",
		"RCPT TO:<nobody@nowhere.example>",
		"RCPT TO:<broken",
		"DATA",
		"DATA-CUT",
		"DATA-LOOP",
		"BDAT",
		"BDAT-PART",
		"RSET",
		"NOOP",
		"QUIT",
		"DISCONNECT",
	}
}

func c03Config(w c03World) []config.Node {
	blk := func(tgts ...string) []config.Node {
		var ns []config.Node
		for _, t := range tgts {
			ns = append(ns, config.Node{Name: "deliver_to", Args: []string{"&" + t}})
		}
		return ns
	}
	d := "no"
	if w.Defer {
		d = "yes"
	}
	var buf []config.Node
	if w.Fault == "" {
		// the worlds without an injected fault run with the default buffering of the
		// message body (RAM up to a size, then a file); the others keep it in RAM
		buf = append(buf, config.Node{Name: "buffer", Args: []string{"auto", "1M", os.TempDir()}})
	}
	if w.LogCap > 0 {
		buf = append(buf, config.Node{Name: "max_logged_rcpt_errors", Args: []string{fmt.Sprint(w.LogCap)}})
	}
	return append(buf, []config.Node{
		{Name: "defer_sender_reject", Args: []string{d}},
		{Name: "max_received", Args: []string{"2"}},
		{Name: "limits", Children: []config.Node{
			{Name: "all", Args: []string{"concurrency", "2"}},
			{Name: "ip", Args: []string{"concurrency", "2"}},
			{Name: "source", Args: []string{"concurrency", "2"}},
		}},
		{Name: "check", Children: []config.Node{{Name: "&vchk"}}},
		{Name: "modify", Children: []config.Node{{Name: "&vmod"}}},
		{Name: "source", Args: []string{"refused.example"}, Children: []config.Node{{Name: "reject", Args: []string{"550", "5.7.1", "sender refused"}}}},
		{Name: "default_source", Children: []config.Node{
			{Name: "destination", Args: []string{"t1.example"}, Children: blk("vt1")},
			{Name: "destination", Args: []string{"t2.example"}, Children: blk("vt2")},
			{Name: "destination", Args: []string{"both.example"}, Children: blk("vt1", "vt2")},
			{Name: "default_destination", Children: []config.Node{{Name: "reject", Args: []string{"550", "5.1.1", "no such user"}}}},
		}},
	}...)
}

func c03TargetsOf(rcpt string) []string {
	r := strings.ToLower(rcpt)
	switch {
	case strings.HasSuffix(r, "@t1.example"):
		return []string{"vt1"}
	case strings.HasSuffix(r, "@t2.example"):
		return []string{"vt2"}
	case strings.HasSuffix(r, "@both.example"):
		return []string{"vt1", "vt2"}
	}
	return nil
}

func c03InstallFaults(w c03World) {
	faults := map[string]bool{}
	for _, f := range []string{w.Fault, w.Fault2} {
		if f != "" {
			faults[f] = true
		}
	}
	mk := func(name string) func(d *mon.Deliv, stage, rcpt string) error {
		return func(d *mon.Deliv, stage, rcpt string) error {
			if faults[name+":"+stage] {
				return &exterrors.SMTPError{Code: 451, EnhancedCode: exterrors.EnhancedCode{4, 3, 0}, Message: "scripted fault " + name + ":" + stage}
			}
			return nil
		}
	}
	ehT1.Reset()
	ehT2.Reset()
	ehT3.Reset()
	ehT1.Fault, ehT2.Fault = mk("vt1"), mk("vt2")
	ehMod1.mu.Lock()
	ehMod1.Opened, ehMod1.Closed = 0, 0
	ehMod1.Fail = func(stage string) error {
		if faults["mod:"+stage] {
			return &exterrors.SMTPError{Code: 451, EnhancedCode: exterrors.EnhancedCode{4, 3, 0}, Message: "scripted modifier fault at " + stage}
		}
		return nil
	}
	ehMod1.mu.Unlock()
	ehCheck1.mu.Lock()
	ehCheck1.Verdict = func(stage, item string) module.CheckResult {
		if faults["check:"+stage] {
			return ehReject(stage)
		}
		return module.CheckResult{}
	}
	ehCheck1.mu.Unlock()
}

type c03Txn struct {
	msgID    string
	accepted []string // recipients accepted by the server in the current transaction (as sent)
}

type c03Run struct {
	fp, detail string
	state      string
	ended      bool
	replies    []string
	deadline   bool
	skip       bool
}

// c03Exec runs one command history on a fresh endpoint and checks the invariants.
func c03Exec(c c03Case) (res c03Run) {
	vsched.ResetFreeMaps()
	// map_order 0/1: one iteration order for every small map of the run; 2/3: the order
	// alternates from one iteration to the next (two loops over one map disagree)
	vsched.FreePerm = c.World.Perm % 2
	vsched.FreeAlt = c.World.Perm >= 2
	c03InstallFaults(c.World)
	mod := "smtp"
	if c.World.LMTP {
		mod = "lmtp"
	}
	endp, l, err := ehEndpoint(mod, c03Config(c.World))
	if err != nil {
		return c03Run{fp: "HARNESS:endpoint-init", detail: err.Error()}
	}
	defer ehStop(endp, l)
	cl := l.dial()
	defer cl.c.Close()
	fail := func(kind, f string, a ...any) c03Run {
		var ev []string
		for _, t := range []*mon.Target{ehT1, ehT2} {
			ds, _ := t.Snapshot()
			for _, d := range ds {
				ev = append(ev, fmt.Sprintf("%s#%d[%s] %s -> %q", t.N, d.Seq, d.MsgID, strings.Join(d.Events, " "), d.Closed))
			}
		}
		proto := "smtp"
		if c.World.LMTP {
			proto = "lmtp"
		}
		fault := "nofault"
		if c.World.Fault != "" {
			fault = "fault=" + c.World.Fault
			if c.World.Fault2 != "" {
				fault += "+" + c.World.Fault2
			}
		}
		regreet := ""
		greets := 0
		for _, x := range c.Cmds {
			if strings.HasPrefix(x, "EHLO") || strings.HasPrefix(x, "LHLO") {
				greets++
			}
		}
		if greets > 1 {
			regreet = ":repeated-greeting"
		}
		multi := ""
		for _, x := range c.Cmds {
			if strings.Contains(x, "@both.example") {
				multi = ":multi-target-rcpt"
			}
		}
		if kind == "success-reply-for-abandoned-recipient" {
			// independent of the injected fault and of the recipients' targets
			fault, multi = "any", ""
		} else {
			// a repeated greeting is not what distinguishes the other defect classes
			regreet = ""
		}
		return c03Run{fp: "C03:" + kind + ":" + proto + ":" + fault + regreet + multi, detail: fmt.Sprintf(f, a...) + "\nworld " + vx.JSON(c.World) + "\nsession:\n  " + strings.Join(res.replies, "\n  ") + "\ntargets:\n  " + strings.Join(ev, "\n  ")}
	}
	greet, err := cl.read()
	if err != nil || greet.Code != 220 {
		return c03Run{fp: "HARNESS:greeting", detail: fmt.Sprint(greet, err)}
	}
	var txnRcpts []string // recipients accepted in maddy's current transaction
	// go-smtp's own recipient list: it is NOT reset by a repeated greeting, so
	// after LHLO inside a transaction the library still expects (and answers)
	// per-recipient statuses for the recipients of the abandoned transaction
	var libRcpts []string
	mailOpen := false
	mailArg := "" // the accepted MAIL command (its spelling is part of the state: permits are keyed by it)
	ended := false
	utf8Txn := false // the MAIL command of the transaction in progress carried SMTPUTF8
	cut := false // the client disconnected in the middle of the message data
	// a non-final BDAT chunk was accepted and the message is not finished yet (go-smtp's
	// chunk pipe is open); chunkDead: the session it belonged to was finished by a
	// repeated greeting, which go-smtp does not treat as the end of the transfer
	chunkPending, chunkDead := false, false
	const chunkAt = len(c03Msg) / 2
	var cutOpen map[string]bool
	commitFault := strings.HasSuffix(c.World.Fault, ":commit") || strings.HasSuffix(c.World.Fault2, ":commit")
	openBefore := func() map[string]bool {
		m := map[string]bool{}
		for _, t := range []*mon.Target{ehT1, ehT2} {
			ds, _ := t.Snapshot()
			for _, d := range ds {
				if d.Closed == "" {
					m[fmt.Sprintf("%s#%d", t.N, d.Seq)] = true
				}
			}
		}
		return m
	}
	for _, cmd := range c.Cmds {
		if ended {
			break
		}
		var rep ehReply
		var reps []ehReply
		var err error
		switch {
		case cmd == "DISCONNECT":
			cl.c.Close()
			err = cl.waitClosed()
			ended = true
			res.replies = append(res.replies, "C: <disconnect>")
		case cmd == "DATA-CUT":
			// the client vanishes in the middle of the message: header and part of the body, no final dot
			cutOpen = openBefore() // the deliveries of the transaction that is cut off
			rep, err = cl.cmd("DATA")
			res.replies = append(res.replies, "C: DATA", "S: "+rep.String())
			if err == nil && rep.Code == 354 {
				cl.write(c03Msg + "second body line\r\n")
				cl.c.Close()
				err = cl.waitClosed()
				ended = true
				cut = true
				res.replies = append(res.replies, "C: <header, two body lines, disconnect>")
			}
		case cmd == "DATA" || cmd == "DATA-LOOP":
			rep, err = cl.cmd("DATA")
			res.replies = append(res.replies, "C: DATA", "S: "+rep.String())
			if err == nil && rep.Code == 354 {
				body := c03Msg
				if cmd == "DATA-LOOP" {
					body = c03ManyReceived
				}
				cl.write(body + ".\r\n")
				n := 1
				if c.World.LMTP {
					n = len(libRcpts)
				}
				for i := 0; i < n && err == nil; i++ {
					rep, err = cl.read()
					reps = append(reps, rep)
					res.replies = append(res.replies, "S: "+rep.String())
				}
			} else {
				reps = nil
			}
		case cmd == "BDAT-PART" && (chunkPending || !(mailOpen && len(txnRcpts) > 0)):
			// one non-final chunk per message; without recipients as for BDAT below
			res.skip = true
			return res
		case cmd == "BDAT-PART":
			err = cl.write(fmt.Sprintf("BDAT %d\r\n%s", chunkAt, c03Msg[:chunkAt]))
			res.replies = append(res.replies, "C: BDAT <n> (first half of the message)")
			if err == nil {
				rep, err = cl.read()
				res.replies = append(res.replies, "S: "+rep.String())
			}
		case cmd == "BDAT" && !chunkPending && !(mailOpen && len(txnRcpts) > 0):
			// go-smtp refuses BDAT without recipients but does not consume the
			// chunk; a pipelining client would desynchronise. Not a transition.
			res.skip = true
			return res
		case cmd == "BDAT":
			rest := c03Msg
			if chunkPending {
				rest = c03Msg[chunkAt:]
			}
			err = cl.write(fmt.Sprintf("BDAT %d LAST\r\n%s", len(rest), rest))
			res.replies = append(res.replies, "C: BDAT <n> LAST")
			n := 1
			if c.World.LMTP && mailOpen && len(txnRcpts) > 0 {
				n = len(libRcpts)
			}
			if chunkDead {
				// the transfer belongs to a finished session: one refusal for the chunk
				n = 1
			}
			for i := 0; i < n && err == nil; i++ {
				rep, err = cl.read()
				reps = append(reps, rep)
				res.replies = append(res.replies, "S: "+rep.String())
				if rep.Code == 0 || (i == 0 && rep.Class() != 2 && !(c.World.LMTP && len(libRcpts) > 1)) {
					break
				}
			}
		default:
			rep, err = cl.cmd(cmd)
			res.replies = append(res.replies, "C: "+cmd, "S: "+rep.String())
		}
		if c.World.LMTP && len(reps) > 0 && err == nil && reps[len(reps)-1].Code != 0 && reps[len(reps)-1].Code != 421 {
			// LMTP replies are written as soon as the statuses are known, possibly
			// before the server finished the command: synchronise with a NOOP
			if sync, e2 := cl.cmd("NOOP"); e2 == errEHDeadline {
				err = e2
			} else if sync.Code == 0 {
				cl.waitClosed()
				ended = true
			}
		}
		if err == errEHDeadline {
			res.deadline = true
			return fail("hang", "no reply to %q within %s", cmd, ehDeadline)
		}
		if err != nil {
			return c03Run{fp: "HARNESS:io", detail: err.Error()}
		}
		if rep.Code == 0 && !ended && len(reps) == 0 {
			// the server dropped the connection
			cl.waitClosed()
			ended = true
		}
		if rep.Code == 421 {
			cl.waitClosed()
			ended = true
		}
		if c03JudgeASCII {
			// C16: replies to a client that did not negotiate SMTPUTF8 (for the transaction
			// in progress) contain only ASCII
			all := append([]ehReply{rep}, reps...)
			thisUTF8 := utf8Txn || (strings.HasPrefix(cmd, "MAIL") && strings.HasSuffix(cmd, " SMTPUTF8"))
			for _, rp := range all {
				for _, ln := range rp.Lines {
					for i := 0; i < len(ln); i++ {
						if ln[i] >= 0x80 && !thisUTF8 {
							return fail("non-ascii-reply-without-smtputf8", "reply %q to %q contains non-ASCII text although the transaction in progress did not use SMTPUTF8", rp.String(), cmd)
						}
					}
				}
			}
		}
		// protocol mirror
		switch {
		case strings.HasPrefix(cmd, "EHLO") || strings.HasPrefix(cmd, "LHLO"):
			if rep.Class() == 2 {
				// go-smtp resets the transaction on a repeated greeting
				mailOpen, txnRcpts = false, nil
				if chunkPending {
					chunkDead = true
				}
			}
		case strings.HasPrefix(cmd, "MAIL"):
			if rep.Class() == 2 {
				mailOpen, txnRcpts = true, nil
				mailArg = cmd
				utf8Txn = strings.HasSuffix(cmd, " SMTPUTF8")
			}
		case strings.HasPrefix(cmd, "RCPT"):
			if rep.Class() == 2 {
				a := cmd[strings.Index(cmd, "<")+1:]
				txnRcpts = append(txnRcpts, strings.TrimSuffix(a, ">"))
				libRcpts = append(libRcpts, strings.TrimSuffix(a, ">"))
			}
		case cmd == "RSET":
			if rep.Class() == 2 {
				mailOpen, txnRcpts, libRcpts = false, nil, nil
				utf8Txn = false
				chunkPending, chunkDead = false, false
			}
		case cmd == "BDAT-PART":
			if rep.Class() == 2 {
				chunkPending = true
			} else if rep.Code != 0 {
				// go-smtp resets the transaction when a chunk is refused
				mailOpen, txnRcpts, libRcpts = false, nil, nil
				utf8Txn = false
			}
		case cmd == "QUIT":
			if rep.Code == 221 || rep.Code == 0 {
				cl.waitClosed()
				ended = true
			}
		case cmd == "DATA" || cmd == "DATA-LOOP" || cmd == "BDAT":
			if len(reps) > 0 {
				// ---- reply <=> commit ---------------------------------------------
				s1, _ := ehT1.Snapshot()
				s2, _ := ehT2.Snapshot()
				byName := map[string][]mon.Deliv{"vt1": s1, "vt2": s2}
				committedFor := func(rcpt, tgt string) (bool, bool) { // committed, anyCommitAttempt
					ds := byName[tgt]
					for i := len(ds) - 1; i >= 0; i-- {
						d := ds[i]
						for _, a := range d.Accepted {
							if strings.EqualFold(a, rcpt) {
								return d.Closed == "commit" && d.CommitOK, d.Closed == "commit"
							}
						}
					}
					return false, false
				}
				stale := len(libRcpts) - len(txnRcpts)
				if c.World.LMTP {
					for i := 0; i < stale && i < len(reps); i++ {
						if reps[i].Class() == 2 {
							return fail("success-reply-for-abandoned-recipient", "reply %q for %s, a recipient of the transaction that was abandoned by the repeated greeting (it is not part of the delivered message)", reps[i].String(), libRcpts[i])
						}
					}
				}
				for i, r := range txnRcpts {
					rp := reps[0]
					if c.World.LMTP && stale+i < len(reps) {
						rp = reps[stale+i]
					}
					for _, tn := range c03TargetsOf(r) {
						ok, attempted := committedFor(r, tn)
						if rp.Class() == 2 && !ok {
							return fail("success-reply-without-commit", "reply %q for recipient %s but its target %s did not commit it", rp.String(), r, tn)
						}
						if rp.Class() != 2 && ok && !commitFault && !c.World.LMTP {
							return fail("commit-despite-failure-reply", "reply %q but target %s committed recipient %s", rp.String(), tn, r)
						}
						if rp.Class() != 2 && attempted && !commitFault && !c.World.LMTP {
							return fail("commit-despite-failure-reply", "reply %q but Commit was called on target %s for recipient %s", rp.String(), tn, r)
						}
					}
				}
				if len(reps) > 0 && reps[len(reps)-1].Code != 0 {
					mailOpen, txnRcpts, libRcpts = false, nil, nil
					utf8Txn = false
					chunkPending, chunkDead = false, false
				}
			}
		}
		for _, t := range []*mon.Target{ehT1, ehT2} {
			if _, v := t.Snapshot(); len(v) > 0 {
				kind := "typestate"
				switch {
				case strings.Contains(v[0], "after commit") || strings.Contains(v[0], "after abort"):
					kind = "used-after-close"
				}
				return fail(kind, "%s", strings.Join(v, "; "))
			}
		}
	}
	res.ended = ended
	// ---- canonical state -------------------------------------------------------------------
	var parts []string
	if !mailOpen {
		mailArg = ""
	}
	parts = append(parts, fmt.Sprintf("mail=%v(%s) rcpts=%q lib=%q ended=%v chunk=%v/%v", mailOpen, mailArg, txnRcpts, libRcpts, ended, chunkPending, chunkDead))
	for _, t := range []*mon.Target{ehT1, ehT2} {
		ds, _ := t.Snapshot()
		closedC, closedA, failed := 0, 0, 0
		var open []string
		for _, d := range ds {
			switch d.Closed {
			case "":
				open = append(open, strings.Join(d.Accepted, "+"))
			case "commit":
				if d.CommitOK {
					closedC++
				} else {
					failed++
				}
			default:
				closedA++
			}
		}
		capn := func(n int) int {
			if n > 2 {
				return 2
			}
			return n
		}
		sort.Strings(open)
		parts = append(parts, fmt.Sprintf("%s:open=%q c=%d a=%d f=%d", t.N, open, capn(closedC), capn(closedA), capn(failed)))
	}
	// permits held (white-box read through an overlay accessor): hidden state that
	// must distinguish a leaked permit from a returned one
	for _, dom := range []string{"example.org", "EXAMPLE.ORG", "refused.example", ""} {
		a, i, sc := endp.limits.VerifInUse("127.0.0.1", dom)
		parts = append(parts, fmt.Sprintf("permits[%s]=%d/%d/%d", dom, a, i, sc))
	}
	res.state = strings.Join(parts, " | ")
	if !ended {
		return res
	}
	if cut {
		// a message whose data never ended is a transaction that failed before the commit step
		for _, t := range []*mon.Target{ehT1, ehT2} {
			ds, _ := t.Snapshot()
			for _, d := range ds {
				if cutOpen[fmt.Sprintf("%s#%d", t.N, d.Seq)] && d.Closed == "commit" {
					return fail("truncated-message-committed", "the client disconnected in the middle of the message data (no final dot) and delivery #%d on %s was committed for %v", d.Seq, t.N, d.Accepted)
				}
			}
		}
	}
	// ---- end of session: everything closed, every permit returned ----------------------------
	for _, t := range []*mon.Target{ehT1, ehT2} {
		ds, _ := t.Snapshot()
		for _, d := range ds {
			if d.Closed == "" {
				return fail("delivery-left-open", "the session is over but delivery #%d on %s (message %s, recipients %v) was neither committed nor aborted", d.Seq, t.N, d.MsgID, d.Accepted)
			}
		}
	}
	ehMod1.mu.Lock()
	mo, mc := ehMod1.Opened, ehMod1.Closed
	ehMod1.mu.Unlock()
	if mc > mo {
		return fail("modifier-state-closed-twice", "modifier states opened %d, closed %d", mo, mc)
	}
	// The server closed its side of the connection only after Session.Logout returned
	// (go-smtp Conn.Close), so the permit counters are final here: they are read
	// directly (no waiting, no wall-clock deadline in the oracle).
	for _, dom := range []string{"example.org", "EXAMPLE.ORG", "refused.example", ""} {
		if a, i, sc := endp.limits.VerifInUse("127.0.0.1", dom); a != 0 || i != 0 || sc != 0 {
			return fail("permit-not-returned", "after the session permits are still held: all=%d ip[127.0.0.1]=%d source[%q]=%d", a, i, dom, sc)
		}
	}
	// functional cross-check of the counters: with nothing held both permits of every
	// scope are granted at once (the deadline is a last resort, far above the cost)
	for _, dom := range []string{"example.org", "refused.example", ""} {
		var held int
		for i := 0; i < 2; i++ {
			ctx, cancel := context.WithTimeout(context.Background(), ehDeadline)
			err := endp.limits.TakeMsg(ctx, net.IPv4(127, 0, 0, 1), dom)
			cancel()
			if err != nil {
				for ; held > 0; held-- {
					endp.limits.ReleaseMsg(net.IPv4(127, 0, 0, 1), dom)
				}
				return fail("permit-not-returned", "after the session only %d of 2 permits can be taken for source domain %q although the counters read zero: %v", i, dom, err)
			}
			held++
		}
		for ; held > 0; held-- {
			endp.limits.ReleaseMsg(net.IPv4(127, 0, 0, 1), dom)
		}
	}
	return res
}

func c03Worlds(thorough bool) []c03World {
	faults := []string{"", "vt1:start", "vt1:rcpt", "vt1:body", "vt1:commit", "vt1:abort", "vt2:start", "vt2:rcpt", "vt2:body", "vt2:status", "vt2:commit", "vt2:abort", "check:conn", "check:sender", "check:rcpt", "check:body", "mod:init", "mod:sender", "mod:rcpt", "mod:body"}
	var ws []c03World
	for _, lmtp := range []bool{false, true} {
		for _, df := range []bool{true, false} {
			for _, f := range faults {
				perms := []int{0}
				if strings.HasPrefix(f, "vt") || f == "" {
					perms = []int{0, 1}
				}
				if strings.HasSuffix(f, ":commit") || strings.HasSuffix(f, ":abort") || strings.HasSuffix(f, ":body") && strings.HasPrefix(f, "vt") {
					// the clean-up after a failing target walks the deliveries again
					perms = []int{0, 1, 2, 3}
				}
				for _, p := range perms {
					ws = append(ws, c03World{LMTP: lmtp, Defer: df, Fault: f, Perm: p})
				}
			}
		}
	}
	if thorough {
		for _, lmtp := range []bool{false, true} {
			for _, pair := range [][2]string{{"vt1:body", "vt2:abort"}, {"vt2:body", "vt1:abort"}, {"vt1:commit", "vt2:commit"}, {"check:body", "vt1:abort"}, {"vt1:rcpt", "vt2:body"}, {"vt2:status", "vt1:commit"}} {
				for _, p := range []int{0, 1} {
					ws = append(ws, c03World{LMTP: lmtp, Defer: true, Fault: pair[0], Fault2: pair[1], Perm: p})
				}
			}
		}
	}
	return ws
}

func TestVerifC03(t *testing.T) {
	r := vx.Start("C03", "sessions")
	defer r.Finish()
	r.Rule("explicit-state BFS over SMTP/LMTP command sequences (21 commands: greeting, MAIL valid / upper-case / refused sender / malformed / non-ASCII sender without SMTPUTF8, RCPT to target 1 / target 2 / both / upper-case / refused / malformed, DATA, DATA cut off by a disconnect in the middle of the message, DATA with too many Received fields, BDAT LAST, a non-final BDAT chunk (first half of the message; BDAT LAST then sends the rest), RSET, NOOP, QUIT, disconnect) on the real endpoint (go-smtp server over a pipe, pipeline built from configuration, two monitored targets (atomic and per-recipient), scripted check, real limits with concurrency 2 in the all/ip/source scopes), per world = {SMTP, LMTP} x {deferred, immediate sender reject} x one persistent fault (none or Start/AddRcpt/Body/status/Commit/Abort of a target, a check reject at conn/sender/rcpt/body, or a modifier error at state creation / sender / recipient / body rewriting) x map iteration order (one order for the whole run, or alternating between successive iterations for the worlds whose fault makes the pipeline walk its deliveries twice); successor = fresh endpoint + replay of the history + one command; state = protocol mirror + typestate of every target delivery; invariants: target typestate (closed exactly once, no use after close), success reply => committed on every accepted recipient's target, failure before commit => nothing committed, at session end every delivery closed and every permit returned")
	r.Assume("a second fault is only combined in the thorough tier; TLS, AUTH and proxy-protocol paths are not driven here (AUTH: C14)")
	if rp := r.Replay(); rp != nil {
		var c c03Case
		if json.Unmarshal(rp, &c) != nil {
			r.HarnessError("bad replay")
			return
		}
		res := c03Exec(c)
		r.Eval()
		fmt.Printf("NOTE: replay state=%q\n%s\n", res.state, strings.Join(res.replies, "\n"))
		if res.fp != "" {
			r.Violation(res.fp, res.detail, c)
		}
		return
	}
	if r.Replaying() {
		return
	}
	maxDepth := 7
	if vx.Thorough() {
		maxDepth = 9
	}
	if v := os.Getenv("VERIF_C03_DEPTH"); v != "" {
		fmt.Sscanf(v, "%d", &maxDepth)
	}
	var states, transitions int64
	deepest := 0
	for wi, w := range c03Worlds(vx.Thorough()) {
		if !r.Mine(wi) {
			continue
		}
		if f := os.Getenv("VERIF_C03_WORLD"); f != "" && !strings.Contains(vx.JSON(w), f) {
			continue
		}
		alpha := c03Alphabet(w.LMTP)
		seen := map[string]bool{}
		frontier := [][]string{{}}
		seen["init"] = true
		states++
		stop := false
		for len(frontier) > 0 && !stop {
			h := frontier[0]
			frontier = frontier[1:]
			if len(h) >= maxDepth {
				r.Cap(fmt.Sprintf("world %s: depth %d reached with unexplored states", vx.JSON(w), maxDepth))
				continue
			}
			for _, cmd := range alpha {
				hist := append(append([]string{}, h...), cmd)
				c := c03Case{World: w, Cmds: hist}
				t0 := time.Now()
				res := c03Exec(c)
				if res.deadline {
					// the 20 s last-resort deadline: believed only if the same case hits it
					// again twice (a loaded machine can starve one execution)
					again := 0
					for i := 0; i < 2; i++ {
						if r2 := c03Exec(c); r2.deadline {
							again++
						} else {
							res = r2
						}
					}
					if again < 2 {
						r.Count("deadline_hit_not_reproduced", 1)
						r.Cap("a reply deadline was hit once and did not reproduce: " + vx.JSON(c))
					}
				}
				if res.fp != "" && !strings.HasPrefix(res.fp, "HARNESS:") && w.Fault2 != "" {
					// two-fault world: a violation that also occurs with one of the faults alone is
					// reported as that smaller case (the minimal fault set identifies the defect)
					kind := strings.SplitN(res.fp, ":", 3)[1]
					for _, single := range []string{w.Fault, w.Fault2} {
						sw := w
						sw.Fault, sw.Fault2 = single, ""
						if r1 := c03Exec(c03Case{World: sw, Cmds: hist}); r1.fp != "" && strings.SplitN(r1.fp, ":", 3)[1] == kind {
							res.fp, res.detail = r1.fp, r1.detail+"\n(found in the two-fault world "+vx.JSON(w)+", reproduced with this fault alone)"
							c = c03Case{World: sw, Cmds: hist}
							break
						}
					}
				}
				if d := time.Since(t0); d > 2*time.Second {
					fmt.Printf("NOTE: slow execution (%s): %s %v fp=%s\n", d, vx.JSON(w), hist, res.fp)
					r.Count("slow_executions", 1)
				}
				if res.skip {
					continue
				}
				r.Eval()
				transitions++
				if strings.HasPrefix(res.fp, "HARNESS:") {
					r.HarnessError(res.fp + ": " + res.detail)
					return
				}
				if w.Fault != "" || len(hist) > 2 {
					r.Nontrivial(vx.JSON(c))
				}
				if res.fp != "" {
					v0 := r.Violations()
					r.Violation(res.fp, res.detail+"\ncommands: "+strings.Join(hist, " / "), c)
					if r.Violations() > v0 {
						// a new violation: stop this world (the check fails anyway)
						stop = true
						r.Cap("world " + vx.JSON(w) + ": exploration stopped after a new violation")
						break
					}
					continue
				}
				// observation class: verb of the last command and class of its (last) reply
				{
					verb := strings.SplitN(cmd, " ", 2)[0]
					cls := "no reply (connection closed)"
					for i := len(res.replies) - 1; i >= 0; i-- {
						if strings.HasPrefix(res.replies[i], "S: ") && len(res.replies[i]) > 3 {
							cls = res.replies[i][3:4] + "xx"
							break
						}
						if strings.HasPrefix(res.replies[i], "C: ") {
							break
						}
					}
					r.Outcome(verb + " -> " + cls)
				}
				if res.ended {
					r.Outcome("session-ended")
					continue
				}
				if !seen[res.state] {
					seen[res.state] = true
					states++
					if len(hist) > deepest {
						deepest = len(hist)
					}
					frontier = append(frontier, hist)
					if states%53 == 0 {
						r.Sample(map[string]any{"world": w, "commands": hist, "state": res.state})
					}
				}
			}
		}
	}
	r.Count("states", states)
	r.Count("transitions", transitions)
	r.Count("traces_validated_against_impl", transitions)
	r.MaxCount("max_depth", int64(deepest))
}


// TestVerifC16Sessions (C16, part "sessions"): the ASCII clause on whole sessions.
// wrapErr is judged value by value in the endpoint part; here the replies of
// complete command sequences are judged, where the SMTPUTF8 parameter changes
// from one transaction of a session to the next.
func TestVerifC16Sessions(t *testing.T) {
	r := vx.Start("C16", "sessions")
	defer r.Finish()
	c03JudgeASCII = true
	r.Rule("every command sequence of length <= 6 (no merging of states) over {EHLO, MAIL with / without SMTPUTF8, RCPT, RSET (thorough: DATA)} on the real SMTP endpoint in worlds {deferred, immediate sender reject} x {no fault, check reject at sender / recipient / body, target refusal at recipient / body; the recipient-stage faults also with max_logged_rcpt_errors 1}, scripted failures carrying non-ASCII text; oracle: every reply given while the transaction in progress did not use SMTPUTF8 is ASCII-only. Non-trivial: all transitions")
	if rp := r.Replay(); rp != nil {
		var c c03Case
		if json.Unmarshal(rp, &c) != nil || len(c.Cmds) == 0 {
			return
		}
		res := c03Exec(c)
		r.Eval()
		if strings.Contains(res.fp, "non-ascii-reply") {
			r.Violation(strings.Replace(res.fp, "C03:", "C16:sessions:", 1), res.detail, c)
		}
		return
	}
	if r.Replaying() {
		return
	}
	// every sequence is executed (no merging of states: the session keeps state that the
	// replies do not show, e.g. a remembered refusal)
	alpha := []string{"EHLO client.example", "MAIL FROM:<a@example.org>", "MAIL FROM:<a@example.org> SMTPUTF8", "RCPT TO:<r1@t1.example>", "RSET"}
	if vx.Thorough() {
		alpha = append(alpha, "DATA")
	}
	wi := 0
	var transitions int64
	for _, df := range []bool{true, false} {
		for _, f := range []string{"", "check:sender", "check:rcpt", "check:body", "vt1:rcpt", "vt1:body", "check:rcpt/logcap1", "vt1:rcpt/logcap1"} {
			wi++
			if !r.Mine(wi) {
				continue
			}
			w := c03World{Defer: df, Fault: f}
			if strings.HasSuffix(f, "/logcap1") {
				// the session stops logging refused RCPT commands after the first one
				w = c03World{Defer: df, Fault: strings.TrimSuffix(f, "/logcap1"), LogCap: 1}
			}
			frontier := [][]string{{}}
			for len(frontier) > 0 {
				h := frontier[0]
				frontier = frontier[1:]
				if len(h) >= 6 {
					continue
				}
				for _, cmd := range alpha {
					if len(h) == 0 && !strings.HasPrefix(cmd, "EHLO") {
						continue // every session starts with the greeting
					}
					hist := append(append([]string{}, h...), cmd)
					c := c03Case{World: w, Cmds: hist}
					res := c03Exec(c)
					if res.deadline {
						r.Cap("deadline: " + vx.JSON(c))
						continue
					}
					r.Eval()
					transitions++
					r.Nontrivial(vx.JSON(c))
					if strings.HasPrefix(res.fp, "HARNESS:") {
						r.HarnessError(res.fp + ": " + res.detail)
						return
					}
					if strings.Contains(res.fp, "non-ascii-reply") {
						r.Violation(strings.Replace(res.fp, "C03:", "C16:sessions:", 1), res.detail+"\ncommands: "+strings.Join(hist, " / "), c)
						continue
					}
					if res.fp != "" || res.ended {
						continue // other properties' subjects are not judged here
					}
					frontier = append(frontier, hist)
				}
			}
		}
	}
	r.Count("transitions", transitions)
	r.Outcome("sessions explored")
}



// TestVerifC03NoMerge (part "nomerge", thorough tier): the BFS merges histories that
// reach the same canonical state; this is sound only if the canonical state holds
// everything that decides the future. Here no merging is done: every command
// sequence up to a length bound over a reduced alphabet is executed, with the same
// invariants. It covers short sessions independently of the canonical-state argument.
func TestVerifC03NoMerge(t *testing.T) {
	r := vx.Start("C03", "nomerge")
	defer r.Finish()
	depth := 5
	r.Rule("every command sequence of length <= 5 (no merging of states) over {greeting, MAIL, MAIL refused sender, RCPT target 1, RCPT both targets, RCPT refused, DATA, DATA cut off by a disconnect, RSET, QUIT} on the real endpoint, in every single-fault world (one map order); same invariants as the BFS part (typestate, reply <=> commit, permits, truncated message never committed)")
	if rp := r.Replay(); rp != nil {
		var c c03Case
		if json.Unmarshal(rp, &c) != nil || len(c.Cmds) == 0 {
			return
		}
		res := c03Exec(c)
		r.Eval()
		if res.fp != "" {
			r.Violation(res.fp, res.detail, c)
		}
		return
	}
	if r.Replaying() {
		return
	}
	var n int64
	for wi, w := range c03Worlds(false) {
		if w.Perm != 0 || !r.Mine(wi) {
			continue
		}
		hello := "EHLO client.example"
		if w.LMTP {
			hello = "LHLO client.example"
		}
		alpha := []string{hello, "MAIL FROM:<a@example.org>", "MAIL FROM:<x@refused.example>", "RCPT TO:<r1@t1.example>", "RCPT TO:<r3@both.example>", "RCPT TO:<nobody@nowhere.example>", "DATA", "DATA-CUT", "RSET", "QUIT"}
		stop := false
		var rec func(h []string)
		rec = func(h []string) {
			if stop || len(h) >= depth {
				return
			}
			for _, cmd := range alpha {
				if len(h) == 0 && cmd != hello {
					continue
				}
				hist := append(append([]string{}, h...), cmd)
				c := c03Case{World: w, Cmds: hist}
				res := c03Exec(c)
				if res.deadline {
					r.Cap("deadline: " + vx.JSON(c))
					continue
				}
				if res.skip {
					continue
				}
				r.Eval()
				n++
				r.Nontrivial(vx.JSON(c))
				if strings.HasPrefix(res.fp, "HARNESS:") {
					r.HarnessError(res.fp + ": " + res.detail)
					stop = true
					return
				}
				if res.fp != "" {
					v0 := r.Violations()
					r.Violation(res.fp, res.detail+"\ncommands: "+strings.Join(hist, " / "), c)
					if r.Violations() > v0 {
						stop = true
						r.Cap("world " + vx.JSON(w) + ": exploration stopped after a new violation")
						return
					}
					continue
				}
				if res.ended {
					r.Outcome("session-ended")
					continue
				}
				rec(hist)
			}
		}
		rec(nil)
	}
	r.Count("sequences", n)
}
