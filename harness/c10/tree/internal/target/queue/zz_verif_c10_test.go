package queue

// C10 — the spool preserves message bytes and envelope and never stores
// credentials. Messages built from a header-atom / body / envelope alphabet go
// through the endpoint's header parser into the real queue; a recording target
// compares what it receives on the first attempt, on retries and after a
// restart; every spool file is scanned for the authentication secret.

import (
	"bufio"
	"bytes"
	"encoding/json"
	"fmt"
	"os"
	"path/filepath"
	"reflect"
	"strings"
	"testing"
	"time"

	"github.com/emersion/go-message/textproto"
	"github.com/emersion/go-smtp"
	"github.com/foxcpp/maddy/framework/buffer"
	"github.com/foxcpp/maddy/framework/module"
	"github.com/foxcpp/maddy/internal/verif/vsched"
	"github.com/foxcpp/maddy/internal/verif/vx"
)

const c10Secret = "S3CR3T-pass-MARKER-7f3a"
const c10User = "verif-auth-user-91c"

var c10HeaderAtoms = []string{
	"Subject: plain\r\n",
	"X-Folded: first part of a value that is folded right here at a space\r\n continued on the next line\r\n",
	"X-Tabs: a\r\n\tb\r\n\t\tc\r\n",
	"X-Trailing: value with trailing spaces   \r\n",
	"X-Empty:\r\n",
	"X-Long: " + strings.Repeat("x", 990) + "\r\n",
	"Received: from a by b\r\nReceived: from c by d\r\n",
	"X-8bit: caf\xe9 raw latin-1 \xff\xfe\r\n",
	"X-Utf8: Zo\xc3\xab \xe2\x9c\x93 пример\r\n",
	"sUbJeCt: mixed case name\r\n",
	"X-Colon: a: b: c\r\n",
	"X-VeryLong: " + strings.Repeat("word ", 300) + "\r\n " + strings.Repeat("more ", 300) + "\r\n",
	"X-NoSpace:tight\r\n",
}

type c10Body struct {
	Name string
	Data []byte
	File bool
}

func c10Bodies() []c10Body {
	big := bytes.Repeat([]byte("0123456789abcdef0123456789abcdef0123456789abcdef0123456789abcde\r\n"), 16385)
	big = append(big, 'Z')
	return []c10Body{
		{"empty", nil, false},
		{"one-line", []byte("hello\r\n"), false},
		{"binary", []byte("a\x00b\rc\nd\r\n.\r\n..\r\n\xff\xfe end"), false},
		{"no-final-newline", []byte("line1\r\nline2"), false},
		{"leading-dot", []byte(".\r\n.leading\r\n"), false},
		{"big-file-buffer", big, true},
	}
}

type c10Env struct {
	From     string
	Rcpts    []string
	UTF8     bool
	ReqTLS   bool
	Override bool
	OrigMap  bool
	Quar     bool
}

type c10Case struct {
	Header  string `json:"header"`
	Body    string `json:"body"`
	Env     c10Env `json:"env"`
	History string `json:"history"` // first | retry | restart | restart-retry | report-then-retry
}

func c10Meta(e c10Env) *module.MsgMetadata {
	m := &module.MsgMetadata{
		OriginalFrom:       e.From,
		SMTPOpts:           smtp.MailOptions{UTF8: e.UTF8, RequireTLS: e.ReqTLS},
		TLSRequireOverride: e.Override,
		Quarantine:         e.Quar,
		Conn:               &module.ConnState{Proto: "ESMTPSA", Hostname: "client.example", AuthUser: c10User, AuthPassword: c10Secret},
	}
	if e.OrigMap {
		// the envelope was rewritten in front of the queue: sender and recipients the client used differ
		m.OriginalFrom = "first-sender@origin.example"
		m.OriginalRcpts = map[string]string{}
		for _, r := range e.Rcpts {
			m.OriginalRcpts[r] = "orig-" + r
		}
	}
	return m
}

func c10ScanSpool(dir string) string {
	es, _ := os.ReadDir(dir)
	for _, e := range es {
		b, err := os.ReadFile(filepath.Join(dir, e.Name()))
		if err != nil {
			continue
		}
		if bytes.Contains(b, []byte(c10Secret)) {
			return "password in " + e.Name()
		}
		if bytes.Contains(b, []byte(c10User)) {
			return "authentication user name in " + e.Name()
		}
	}
	return ""
}

var c10Outcome string // observation class of the last run (vacuity guard)

func c10Run(scratch string, c c10Case) (string, string) {
	c10Outcome = "not-accepted-by-the-header-parser"
	dir, err := os.MkdirTemp(scratch, "c10-")
	if err != nil {
		return "HARNESS:tmpdir", err.Error()
	}
	defer os.RemoveAll(dir)
	hdr, err := textproto.ReadHeader(bufio.NewReader(strings.NewReader(c.Header + "\r\n")))
	if err != nil {
		return "", "" // not accepted by the endpoint's parser: outside the quantifier
	}
	var body c10Body
	for _, b := range c10Bodies() {
		if b.Name == c.Body {
			body = b
		}
	}
	wantHdr := qhSerializeHeader(hdr)
	if c.History == "report-then-retry" && len(c.Env.Rcpts) < 2 {
		c10Outcome = "history needs two recipients"
		return "", ""
	}
	failFirst := c.History == "retry" || c.History == "restart" || c.History == "restart-retry"
	leak := ""
	mk := func(phase int) *qhTarget {
		t := &qhTarget{name: "target", partial: len(c.Env.Rcpts) > 1}
		t.decide = func(d *qhDeliv, stage, rcpt string) int {
			if l := c10ScanSpool(dir); l != "" && leak == "" {
				leak = l
			}
			if phase == 0 && c.History == "report-then-retry" && d.Attempt == 1 && stage == "status" {
				// the first recipient fails for good (a failure report is generated while the
				// message stays queued), the others fail temporarily
				if rcpt == c.Env.Rcpts[0] {
					return qhP
				}
				return qhT
			}
			if phase == 0 && failFirst && d.Attempt == 1 {
				// first recipient delivered, the rest (or the only one) fails temporarily
				if len(c.Env.Rcpts) > 1 {
					if stage == "status" && rcpt != c.Env.Rcpts[0] {
						return qhT
					}
				} else if stage == "body" {
					return qhT
				}
			}
			if phase == 1 && c.History == "restart-retry" && d.Attempt == 1 && stage == "start" {
				return qhT
			}
			return qhOK
		}
		return t
	}
	t0 := mk(0)
	var subErr error
	restart := c.History == "restart" || c.History == "restart-retry"
	out := qhRun(func() {
		firstDone := vsched.MakeChan[struct{}](4)
		t0.onEvent = func(ev string) {
			if (strings.Contains(ev, ":abort:") || strings.Contains(ev, ":commit:")) && firstDone.Len() < firstDone.Cap() {
				firstDone.Send(struct{}{})
			}
		}
		qo := qhQueueOpts{dir: dir, target: t0, maxTries: 5}
		if c.History == "report-then-retry" {
			qo.bounce = &qhTarget{name: "bounce"}
		}
		q, err := qhNewQueue(qo)
		if err != nil {
			subErr = err
			return
		}
		meta := c10Meta(c.Env)
		meta.ID = "m1"
		var buf buffer.Buffer = buffer.MemoryBuffer{Slice: body.Data}
		if body.File {
			fb, err := buffer.BufferInFile(bytes.NewReader(body.Data), scratch)
			if err != nil {
				subErr = err
				return
			}
			defer fb.Remove()
			buf = fb
		}
		m := qhMsg{ID: "m1", From: c.Env.From, Rcpts: c.Env.Rcpts, Header: hdr, Body: body.Data, Meta: meta}
		if st, err := c10Submit(q, m, buf); err != nil {
			subErr = fmt.Errorf("%s: %w", st, err)
		}
		if restart && subErr == nil {
			// stop the process after the first attempt, before the retry happens
			firstDone.Recv()
			q.Close()
		}
	})
	if subErr != nil {
		return "C10:submit-refused", subErr.Error()
	}
	if len(out.Panics) > 0 {
		return "C10:panic:" + vx.PanicSite(out.Panics[0]), out.Panics[0]
	}
	if out.Deadlock || out.StepCap {
		return "C10:hang", fmt.Sprint(out.Blocked)
	}
	if l := c10ScanSpool(dir); l != "" && leak == "" {
		leak = l
	}
	dels := append([]*qhDeliv{}, t0.dels...)
	var t1 *qhTarget
	if restart {
		t1 = mk(1)
		o2 := qhRunAt(out.EndedAt+time.Hour, func() {
			if _, err := qhNewQueue(qhQueueOpts{dir: dir, target: t1, maxTries: 5}); err != nil {
				subErr = err
			}
		})
		if subErr != nil || len(o2.Panics) > 0 || o2.Deadlock || o2.StepCap {
			return "C10:restart-fails", fmt.Sprint(subErr, o2.Panics, o2.Blocked)
		}
		dels = append(dels, t1.dels...)
		if l := c10ScanSpool(dir); l != "" && leak == "" {
			leak = l
		}
	}
	if leak != "" {
		return "C10:credential-in-spool", leak
	}
	for _, t := range []*qhTarget{t0, t1} {
		if t != nil && len(t.viol) > 0 {
			return "C10:typestate", strings.Join(t.viol, "; ")
		}
	}
	wantAttempts := 1
	switch c.History {
	case "retry", "restart", "report-then-retry":
		wantAttempts = 2
	case "restart-retry":
		wantAttempts = 3
	}
	if len(dels) != wantAttempts {
		return "C10:attempts", fmt.Sprintf("history %s: %d attempts reached the target, expected %d", c.History, len(dels), wantAttempts)
	}
	pending := c.Env.Rcpts
	for i, d := range dels {
		where := fmt.Sprintf("attempt %d of history %s", i+1, c.History)
		if d.From != c.Env.From {
			return "C10:sender", fmt.Sprintf("%s: sender %q, accepted %q", where, d.From, c.Env.From)
		}
		if d.Closed != "start-failed" {
			if strings.Join(d.Offered, "\x00") != strings.Join(pending, "\x00") {
				return "C10:recipients", fmt.Sprintf("%s: recipients %q, still pending %q", where, d.Offered, pending)
			}
			if !d.BodySeen {
				return "C10:no-body", where
			}
			if got := qhSerializeHeader(d.Header); !bytes.Equal(got, wantHdr) {
				return "C10:header-bytes", fmt.Sprintf("%s: header differs\n got: %q\nwant: %q", where, got, wantHdr)
			}
			if !bytes.Equal(d.Body, body.Data) {
				return "C10:body-bytes", fmt.Sprintf("%s: body differs (got %d bytes, want %d; first difference at %d)", where, len(d.Body), len(body.Data), c10FirstDiff(d.Body, body.Data))
			}
		}
		m := d.Meta
		if m.SMTPOpts.UTF8 != c.Env.UTF8 || m.SMTPOpts.RequireTLS != c.Env.ReqTLS {
			return "C10:smtp-options", fmt.Sprintf("%s: options %+v, accepted UTF8=%v RequireTLS=%v", where, m.SMTPOpts, c.Env.UTF8, c.Env.ReqTLS)
		}
		if m.Quarantine != c.Env.Quar {
			return "C10:quarantine-flag", fmt.Sprintf("%s: quarantine %v, set at acceptance %v", where, m.Quarantine, c.Env.Quar)
		}
		if m.TLSRequireOverride != c.Env.Override {
			return "C10:tls-required-override", fmt.Sprintf("%s: override %v, accepted %v", where, m.TLSRequireOverride, c.Env.Override)
		}
		wantMap := c10Meta(c.Env).OriginalRcpts
		if !(len(m.OriginalRcpts) == 0 && len(wantMap) == 0) && !reflect.DeepEqual(m.OriginalRcpts, wantMap) {
			return "C10:original-recipients", fmt.Sprintf("%s: map %v, accepted %v", where, m.OriginalRcpts, wantMap)
		}
		if want := c10Meta(c.Env).OriginalFrom; m.OriginalFrom != want {
			return "C10:original-sender", fmt.Sprintf("%s: %q vs %q", where, m.OriginalFrom, want)
		}
		// what stays pending after this attempt
		if i == 0 && (failFirst || c.History == "report-then-retry") {
			if len(c.Env.Rcpts) > 1 {
				pending = c.Env.Rcpts[1:]
			}
		}
	}
	if fs := qhSpoolFiles(dir); len(fs) != 0 {
		return "C10:spool-not-empty", fmt.Sprint(fs)
	}
	c10Outcome = "history=" + c.History + ": every attempt compared equal"
	return "", ""
}

func c10FirstDiff(a, b []byte) int {
	for i := 0; i < len(a) && i < len(b); i++ {
		if a[i] != b[i] {
			return i
		}
	}
	if len(a) < len(b) {
		return len(a)
	}
	return len(b)
}

// c10Submit is qhSubmit with an explicit body buffer.
func c10Submit(q *Queue, m qhMsg, buf buffer.Buffer) (string, error) {
	meta := m.Meta.DeepCopy()
	// As the SMTP endpoint does: the override (TLS-Required: No header) and the
	// quarantine verdict of body checks become known at DATA time only, i.e.
	// they are set on the message metadata after Start and the RCPTs.
	override, quarantine := meta.TLSRequireOverride, meta.Quarantine
	meta.TLSRequireOverride, meta.Quarantine = false, false
	d, err := q.Start(nil, meta, m.From)
	if err != nil {
		return "start", err
	}
	for _, r := range m.Rcpts {
		if err := d.AddRcpt(nil, r, smtp.RcptOptions{}); err != nil {
			return "rcpt", err
		}
	}
	meta.TLSRequireOverride, meta.Quarantine = override, quarantine
	if err := d.Body(nil, m.Header, buf); err != nil {
		d.Abort(nil)
		return "body", err
	}
	return "commit", d.Commit(nil)
}

func TestVerifC10(t *testing.T) {
	r := vx.Start("C10", "spool")
	defer r.Finish()
	scratch := os.Getenv("VERIF_SCRATCH")
	if scratch == "" {
		scratch = os.TempDir()
	}
	scratch = filepath.Join(scratch, fmt.Sprintf("c10-%d", r.Shard))
	os.MkdirAll(scratch, 0o755)
	defer os.RemoveAll(scratch)
	r.Rule("every header made of <= H atoms from a 13-atom alphabet (folding with spaces/tabs, trailing spaces, empty/998-octet/very long values; plus whole headers of 0.5 / 1 / 1.5 MiB, repeated fields, 8-bit, UTF-8, mixed-case names) parsed by the endpoint's header parser, crossed with every history in {first attempt, retry, restart, restart+retry, first recipient fails for good (failure report generated through a bounce target) while the others are retried}; plus the full product body (6, incl. binary and a >1 MiB file-backed one) x envelope (sender null/IDN/quoted, 1-2 recipients incl. two mailboxes that differ only in letter case, SMTPUTF8, REQUIRETLS, TLS-Required override, original-recipient map) x history; each message goes through the real queue; oracle: bytes of header and body, sender, pending recipients, options, override and map equal on every attempt, spool empty at the end, no spool file ever contains the authentication user name or password. Non-trivial: distinct (message, history) cases with at least one retry or restart")
	if rp := r.Replay(); rp != nil {
		var c c10Case
		if json.Unmarshal(rp, &c) != nil {
			r.HarnessError("bad replay")
			return
		}
		fp, detail := c10Run(scratch, c)
		r.Eval()
		if fp != "" {
			r.Violation(fp, detail, c)
		}
		return
	}
	if r.Replaying() {
		return
	}
	H := 2
	if vx.Thorough() {
		H = 3
	}
	hists := []string{"first", "retry", "restart", "restart-retry", "report-then-retry"}
	envs := []c10Env{}
	for _, from := range []string{"sender@example.com", "", "\"quo ted\"@example.com", "s@пример.рф"} {
		// the last pair: two distinct mailboxes whose lookup keys coincide (letter case)
		for _, rc := range [][]string{{"a@example.org"}, {"b@пример.рф", "\"we ird\"@example.org"}, {"John.Doe@example.org", "john.doe@example.org"}} {
			for mask := 0; mask < 32; mask++ {
				envs = append(envs, c10Env{From: from, Rcpts: rc, UTF8: mask&1 != 0, ReqTLS: mask&2 != 0, Override: mask&4 != 0, OrigMap: mask&8 != 0, Quar: mask&16 != 0})
			}
		}
	}
	idx := 0
	do := func(c c10Case) {
		idx++
		if !r.Mine(idx) {
			return
		}
		fp, detail := c10Run(scratch, c)
		r.Eval()
		if c.History != "first" {
			r.Nontrivial(vx.JSON(c))
		}
		if strings.HasPrefix(fp, "HARNESS:") {
			r.HarnessError(fp + detail)
			return
		}
		if fp != "" {
			r.Violation(fp, fmt.Sprintf("%s\ncase: header=%q body=%s env=%+v history=%s", detail, c.Header, c.Body, c.Env, c.History), c)
		} else {
			r.Outcome(c10Outcome)
		}
		if idx%2003 == 0 {
			r.Sample(c)
		}
	}
	// headers x histories
	var rec func(prefix string, depth int)
	rec = func(prefix string, depth int) {
		if depth > 0 {
			for _, h := range hists {
				do(c10Case{Header: prefix, Body: "one-line", Env: envs[5], History: h})
			}
		}
		if depth == H {
			return
		}
		for _, a := range c10HeaderAtoms {
			rec(prefix+a, depth+1)
		}
	}
	rec("", 0)
	// headers of 0.5, 1 and 1.5 MiB (the endpoint accepts up to max_header_size, 1 MiB by
	// default, before the pipeline adds its own fields; other sources have no limit)
	for _, fields := range []int{525, 1050, 1600} {
		var sb strings.Builder
		for i := 0; i < fields; i++ {
			fmt.Fprintf(&sb, "X-Pad-%04d: %s\r\n", i, strings.Repeat("p", 985))
		}
		sb.WriteString("Message-Id: <last-field@verif.example>\r\n")
		for _, h := range hists {
			do(c10Case{Header: sb.String(), Body: "one-line", Env: envs[5], History: h})
		}
	}
	// bodies x envelopes x histories
	for _, b := range c10Bodies() {
		for ei, e := range envs {
			if b.File && ei%8 != 1 && !vx.Thorough() {
				continue
			}
			for _, h := range hists {
				do(c10Case{Header: c10HeaderAtoms[0] + c10HeaderAtoms[1], Body: b.Name, Env: e, History: h})
			}
		}
	}
	r.Bound("header_atoms", len(c10HeaderAtoms))
	r.Bound("header_len", H)
	r.Bound("envelopes", len(envs))
}
