package smtp

// C16 (endpoint part) — replies produced by Endpoint.wrapErr for every error
// value of the grammar: code classes agree, class follows the temporary /
// permanent marker, un-annotated errors yield only the generic text, replies
// to non-SMTPUTF8 clients are ASCII.

import (
	"encoding/json"
	"fmt"
	"strings"
	"testing"

	"github.com/emersion/go-smtp"
	"github.com/foxcpp/maddy/framework/log"
	"github.com/foxcpp/maddy/internal/verif/verrs"
	"github.com/foxcpp/maddy/internal/verif/vx"
)

type c16Case struct {
	Desc   string `json:"error"`
	Mangle bool   `json:"client_without_smtputf8"`
}

func c16Endpoint(r *vx.Run, endp *Endpoint, v verrs.Val, mangle bool) {
	r.Eval()
	cs := c16Case{v.Desc, mangle}
	var out error
	if p := vx.Catch(func() { out = endp.wrapErr("", mangle, "DATA", v.Err) }); p != nil {
		r.Violation("C16:endpoint:panic", fmt.Sprintf("%v for %s", p, v.Desc), cs)
		return
	}
	se, ok := out.(*smtp.SMTPError)
	if !ok {
		r.Violation("C16:endpoint:not-smtp-error", fmt.Sprintf("%T for %s", out, v.Desc), cs)
		return
	}
	// what goes on the wire (go-smtp fills in X.0.0 when no enhanced code is set)
	ench := se.EnhancedCode
	if ench == smtp.EnhancedCodeNotSet {
		ench = smtp.EnhancedCode{se.Code / 100, 0, 0}
	}
	class := se.Code / 100
	if class != 4 && class != 5 {
		r.Violation("C16:endpoint:code-class", fmt.Sprintf("%s -> %d %v %q", v.Desc, se.Code, ench, se.Message), cs)
		return
	}
	if ench != smtp.NoEnhancedCode && ench[0] != class {
		r.Violation("C16:endpoint:classes-disagree", fmt.Sprintf("%s -> %d %d.%d.%d %q", v.Desc, se.Code, ench[0], ench[1], ench[2], se.Message), cs)
		return
	}
	switch v.Marked {
	case 1, 2:
		if class != 4 && !v.Annotated {
			r.Violation("C16:endpoint:temporary-answered-5yz", fmt.Sprintf("%s -> %d", v.Desc, se.Code), cs)
		}
	case 0:
		if class != 5 && !v.Annotated {
			r.Violation("C16:endpoint:permanent-answered-4yz", fmt.Sprintf("%s -> %d", v.Desc, se.Code), cs)
		}
	}
	if strings.Contains(se.Message, v.Secret) {
		r.Violation("C16:endpoint:internal-detail-disclosed", fmt.Sprintf("%s -> %q", v.Desc, se.Message), cs)
	}
	if !v.Annotated && v.Marked != 2 && se.Message != "Internal server error" {
		r.Violation("C16:endpoint:non-generic-text", fmt.Sprintf("%s -> %q", v.Desc, se.Message), cs)
	}
	if mangle {
		for i := 0; i < len(se.Message); i++ {
			if se.Message[i] >= 0x80 {
				r.Violation("C16:endpoint:non-ascii-reply", fmt.Sprintf("%s -> %q", v.Desc, se.Message), cs)
				break
			}
		}
	}
	r.Outcome(fmt.Sprintf("%d/%d.x.x", se.Code, ench[0]))
	r.Nontrivial(v.Desc + fmt.Sprint(mangle))
}

func TestVerifC16Endpoint(t *testing.T) {
	r := vx.Start("C16", "endpoint")
	defer r.Finish()
	r.Rule("every error value of nesting depth <= D built from 9 leaves (SMTP-annotated 4xx/5xx incl. non-ASCII text and no enhanced code, plain, net.OpError, net.DNSError not-found/timeout, context deadline) and 5 wrappers (WithTemporary true/false, WithFields, fmt.Errorf %w, SMTPError{Err, SMTPCode, SMTPEnchCode}) through Endpoint.wrapErr with and without SMTPUTF8; oracle: class(code) = class(enhanced code as written on the wire) in {4,5}; marker temporary => 4yz, permanent => 5yz for un-annotated errors; generic text and no internal detail for un-annotated errors; ASCII-only text without SMTPUTF8. Non-trivial: all (distinct values)")
	depth := 3
	if vx.Thorough() {
		depth = 5
	}
	r.Bound("depth", depth)
	endp := &Endpoint{name: "verif", Log: log.Logger{Out: log.NopOutput{}}}
	var want *c16Case
	if rp := r.Replay(); rp != nil {
		want = &c16Case{}
		json.Unmarshal(rp, want)
		depth = 5
	} else if r.Replaying() {
		return
	}
	n := 0
	verrs.Enumerate(depth, func(v verrs.Val) {
		n++
		for _, m := range []bool{true, false} {
			if want != nil && (want.Desc != v.Desc || want.Mangle != m) {
				continue
			}
			if want == nil && !r.Mine(n) {
				continue
			}
			c16Endpoint(r, endp, v, m)
			if n%997 == 0 && m {
				r.Sample(c16Case{v.Desc, m})
			}
		}
	})
}
