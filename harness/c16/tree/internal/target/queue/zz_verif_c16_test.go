package queue

// C16 (queue part) — the error stored per recipient and the retry decision of
// the real queue for every error value of the grammar: classes agree and class
// 4 <=> the recipient is retried.

import (
	"context"
	"encoding/json"
	"fmt"
	"os"
	"path/filepath"
	"testing"

	"github.com/emersion/go-message/textproto"
	"github.com/emersion/go-smtp"
	"github.com/foxcpp/maddy/framework/buffer"
	"github.com/foxcpp/maddy/framework/exterrors"
	"github.com/foxcpp/maddy/framework/module"
	"github.com/foxcpp/maddy/internal/verif/verrs"
	"github.com/foxcpp/maddy/internal/verif/vx"
)

type c16qCase struct {
	Desc string `json:"error"`
}

func TestVerifC16Queue(t *testing.T) {
	r := vx.Start("C16", "queue")
	defer r.Finish()
	r.Rule("every error value of nesting depth <= D (same grammar as the endpoint part) through the queue's conversion of recipient errors (toSMTPErr) and its retry classification; a subset (depth <= 1) additionally as a one-attempt run of the real queue whose stored metadata is read back; oracle: class(code) = class(enhanced code) in {4,5}, enhanced code set, and class 4 <=> the queue retries the recipient. Non-trivial: all (distinct values)")
	depth := 3
	if vx.Thorough() {
		depth = 5
	}
	var want *c16qCase
	if rp := r.Replay(); rp != nil {
		want = &c16qCase{}
		json.Unmarshal(rp, want)
		depth = 5
	} else if r.Replaying() {
		return
	}
	scratch := os.Getenv("VERIF_SCRATCH")
	if scratch == "" {
		scratch = os.TempDir()
	}
	scratch = filepath.Join(scratch, fmt.Sprintf("c16-%d", r.Shard))
	os.MkdirAll(scratch, 0o755)
	defer os.RemoveAll(scratch)
	n := 0
	verrs.Enumerate(depth, func(v verrs.Val) {
		n++
		if want != nil && want.Desc != v.Desc {
			return
		}
		if want == nil && !r.Mine(n) {
			return
		}
		r.Eval()
		r.Nontrivial(v.Desc)
		cs := c16qCase{v.Desc}
		se := toSMTPErr(v.Err)
		retried := exterrors.IsTemporaryOrUnspec(v.Err)
		class := se.Code / 100
		if class != 4 && class != 5 {
			r.Violation("C16:queue:code-class", fmt.Sprintf("%s -> %d", v.Desc, se.Code), cs)
			return
		}
		if se.EnhancedCode[0] != class {
			r.Violation("C16:queue:classes-disagree", fmt.Sprintf("%s -> stored as %d %d.%d.%d", v.Desc, se.Code, se.EnhancedCode[0], se.EnhancedCode[1], se.EnhancedCode[2]), cs)
			return
		}
		if (class == 4) != retried {
			r.Violation("C16:queue:class-vs-retry", fmt.Sprintf("%s -> stored as %d %v, retried=%v", v.Desc, se.Code, se.EnhancedCode, retried), cs)
			return
		}
		r.Outcome(fmt.Sprintf("%d/retried=%v", class, retried))
	})
	// a subset through a real one-attempt run: what the queue decides is what it stores
	m := 0
	verrs.Enumerate(1, func(v verrs.Val) {
		m++
		if want != nil || !r.Mine(m) {
			return
		}
		dir, _ := os.MkdirTemp(scratch, "q-")
		defer os.RemoveAll(dir)
		tgt := &c16Target{inner: &qhTarget{name: "target", spool: dir}, err: v.Err}
		bounce := &qhTarget{name: "bounce"}
		out := qhRun(func() {
			q, err := qhNewQueue(qhQueueOpts{dir: dir, target: tgt, bounce: bounce, maxTries: 2})
			if err != nil {
				panic(err)
			}
			qhSubmit(q, qhSimpleMsg("m1", "s@example.com", "a@example.org"))
		})
		r.Eval()
		if len(out.Panics) > 0 || out.Deadlock || out.StepCap {
			r.Violation("C16:queue:run-failed", fmt.Sprint(out.Panics, out.Blocked), c16qCase{v.Desc})
			return
		}
		attempts := len(tgt.inner.dels)
		wantAttempts := 1
		if exterrors.IsTemporaryOrUnspec(v.Err) {
			wantAttempts = 2
		}
		if attempts != wantAttempts {
			r.Violation("C16:queue:retry-decision", fmt.Sprintf("%s: %d attempts, classification says %d", v.Desc, attempts, wantAttempts), c16qCase{v.Desc})
		}
		if len(bounce.dels) != 1 {
			r.Violation("C16:queue:no-report", fmt.Sprintf("%s: %d reports", v.Desc, len(bounce.dels)), c16qCase{v.Desc})
		}
	})
}

// c16Target refuses every recipient with a fixed error value.
type c16Target struct {
	inner *qhTarget
	err   error
}

func (t *c16Target) Name() string         { return "verif_target" }
func (t *c16Target) InstanceName() string { return "c16" }
func (t *c16Target) Start(ctx context.Context, msgMeta *module.MsgMetadata, mailFrom string) (module.Delivery, error) {
	d, err := t.inner.Start(ctx, msgMeta, mailFrom)
	if err != nil {
		return nil, err
	}
	return &c16Delivery{t, d}, nil
}

type c16Delivery struct {
	t     *c16Target
	inner module.Delivery
}

func (d *c16Delivery) AddRcpt(ctx context.Context, rcptTo string, o smtp.RcptOptions) error {
	d.inner.AddRcpt(ctx, rcptTo, o)
	return d.t.err
}
func (d *c16Delivery) Body(ctx context.Context, h textproto.Header, b buffer.Buffer) error {
	return d.inner.Body(ctx, h, b)
}
func (d *c16Delivery) Abort(ctx context.Context) error  { return d.inner.Abort(ctx) }
func (d *c16Delivery) Commit(ctx context.Context) error { return d.inner.Commit(ctx) }
