package remote

// C16 (errors generated at run time by the remote target): every error value
// the real remote target hands to its caller - from AddRcpt and as per-recipient
// status - in worlds with one or two MX candidates that fail in scripted ways
// (down, EHLO refused 4xx/5xx, MAIL/RCPT/DATA refused 4xx/5xx, connection dropped,
// rejected by MTA-STS / DANE / local_policy, REQUIRETLS unmet) is checked for
// coherence: basic code class = enhanced code class = temporary/permanent marker.

import (
	"encoding/json"
	"errors"
	"fmt"
	"strings"
	"testing"

	"github.com/foxcpp/maddy/framework/exterrors"
	"github.com/foxcpp/maddy/framework/log"
	"github.com/foxcpp/maddy/internal/verif/vx"
)

func c16Incoherent(err error) string {
	if err == nil {
		return ""
	}
	var se *exterrors.SMTPError
	if !asSMTP(err, &se) {
		// an error that carries its reply in fields (the aggregate of the all-or-nothing body path)
		var fe interface{ Fields() map[string]interface{} }
		if errors.As(err, &fe) {
			// the fields are computed on every call, possibly from a map of per-recipient
			// errors: read them repeatedly so that both iteration orders of a two-entry
			// map are seen (each call picks one; 64 calls miss one with probability 2^-63)
			for i := 0; i < 64; i++ {
				f := fe.Fields()
				code, _ := f["smtp_code"].(int)
				ench, _ := f["smtp_enchcode"].(exterrors.EnhancedCode)
				if code != 0 && ench[0] != 0 && code/100 != ench[0] {
					return fmt.Sprintf("fields give basic code %d with enhanced code %d.%d.%d", code, ench[0], ench[1], ench[2])
				}
			}
		}
		return ""
	}
	code, ench := se.Code, se.EnhancedCode
	if code != 0 && code/100 != 4 && code/100 != 5 {
		return fmt.Sprintf("failure with basic code %d", code)
	}
	if ench[0] != 0 && code != 0 && code/100 != ench[0] {
		return fmt.Sprintf("basic code %d with enhanced code %d.%d.%d", code, ench[0], ench[1], ench[2])
	}
	if code != 0 && (code/100 == 4) != exterrors.IsTemporary(err) {
		return fmt.Sprintf("basic code %d but temporary=%v", code, exterrors.IsTemporary(err))
	}
	// what the helpers used by the endpoint and the queue compute from it
	c2 := exterrors.SMTPCode(err, 451, 554)
	e2 := exterrors.SMTPEnchCode(err, exterrors.EnhancedCode{0, 0, 0})
	if c2/100 != e2[0] {
		return fmt.Sprintf("helpers compute %d %d.%d.%d", c2, e2[0], e2[1], e2[2])
	}
	return ""
}

func TestVerifC16Remote(t *testing.T) {
	log.DefaultLogger.Out = log.NopOutput{}
	r := vx.Start("C16", "remote")
	defer r.Finish()
	r.Rule("real remote target in front of 1-2 scripted MX candidates, each either healthy or failing in one of {down, EHLO 421, EHLO 554, MAIL 451/550, RCPT 450/550, DATA 451/554, connection dropped at DATA, no STARTTLS, self-signed certificate, not listed in the MTA-STS policy, TLSA mismatch, TLSA SERVFAIL}; configurations {no policy, mtasts, dane, local_policy authenticated/mtasts, all}; message flag {none, REQUIRETLS}; plus one message to two domains through the all-or-nothing body path (data answered ok / 451 / 554 / dropped per domain, the aggregate's fields read 64 times to see both iteration orders of its error map); oracle: every error returned by AddRcpt or Body or set as per-recipient status has basic code class = enhanced code class = temporary marker, also after exterrors.SMTPCode / SMTPEnchCode. Non-trivial: distinct cases that produced at least one error")
	type rc struct {
		Case c05Case `json:"case"`
	}
	run := func(c c05Case) (string, string, int) {
		var bad, all []string
		c16Hook = func(where string, err error) {
			if err == nil {
				return
			}
			all = append(all, where)
			if why := c16Incoherent(err); why != "" {
				bad = append(bad, fmt.Sprintf("%s: %s (%v)", where, why, err))
			}
		}
		defer func() { c16Hook = nil }()
		fp, detail, _ := c05Run(c)
		if fp == "HARNESS" {
			return fp, detail, 0
		}
		if len(bad) > 0 {
			kind := "basic-vs-enhanced"
			if strings.Contains(bad[0], "temporary=") {
				kind = "code-vs-temporary-marker"
			}
			return "C16:remote-generated:" + kind, strings.Join(bad, "; "), len(all)
		}
		return "", "", len(all)
	}
	if rp := r.Replay(); rp != nil {
		var c c05Case
		if json.Unmarshal(rp, &c) != nil {
			r.HarnessError("bad replay")
			return
		}
		fp, detail, _ := run(c)
		r.Eval()
		if fp == "HARNESS" {
			r.HarnessError(detail)
		} else if fp != "" {
			r.Violation(fp, detail, c)
		}
		return
	}
	if r.Replaying() {
		return
	}
	shapes := []c05MX{
		{TLS: "valid", TLSA: "none", AD: true, Listed: true, Ext: true},
		{TLS: "", TLSA: "none", AD: true, Listed: true},
		{TLS: "selfsigned", TLSA: "none", AD: true, Listed: true, Ext: true},
		{TLS: "valid", TLSA: "none", AD: true, Listed: false, Ext: true},
		{TLS: "valid", TLSA: "mismatch", AD: true, Listed: true, Ext: true},
		{TLS: "valid", TLSA: "servfail", AD: true, Listed: true, Ext: true},
		{TLS: "broken", TLSA: "none", AD: true, Listed: true},
	}
	for _, f := range []string{"down", "greet421", "greet554", "mail451", "mail550", "rcpt450", "rcpt550", "data451", "data554", "dropdata"} {
		shapes = append(shapes, c05MX{TLS: "valid", TLSA: "none", AD: true, Listed: true, Ext: true, Fault: f})
	}
	cfgs := []c05Cfg{
		{Override: true, Relaxed: true},
		{MTASTS: true, Override: true, Relaxed: true},
		{DANE: true, Override: true, Relaxed: true},
		{Local: "authenticated/mtasts", MTASTS: true, Override: true, Relaxed: true},
		{MTASTS: true, DANE: true, DNSSEC: true, Local: "encrypted/none", Override: true, Relaxed: false},
	}
	idx := 0
	emit := func(c c05Case) {
		idx++
		if !r.Mine(idx) {
			return
		}
		fp, detail, nerr := run(c)
		r.Eval()
		if fp == "HARNESS" {
			r.HarnessError(detail + "\ncase: " + vx.JSON(c))
			return
		}
		if fp != "" {
			r.Violation(fp, detail+"\ncase: "+vx.JSON(c), c)
			return
		}
		if nerr > 0 {
			r.Nontrivial(vx.JSON(c))
		}
		r.Count("errors_checked", int64(nerr))
		if idx%1501 == 0 {
			r.Sample(map[string]any{"case": c, "errors_checked": nerr})
		}
	}
	for _, cfg := range cfgs {
		for _, flag := range []string{"", "requiretls"} {
			for _, sts := range []string{"", "enforce"} {
				if sts != "" && !cfg.MTASTS {
					continue
				}
				for _, m1 := range shapes {
					emit(c05Case{Cfg: cfg, Dom: []c05Dom{{STS: sts, MXAD: true, MX: []c05MX{m1}}}, Hist: []c05Msg{{Flag: flag, Doms: []int{0}}}})
					for _, m2 := range shapes {
						emit(c05Case{Cfg: cfg, Dom: []c05Dom{{STS: sts, MXAD: true, MX: []c05MX{m1, m2}}}, Hist: []c05Msg{{Flag: flag, Doms: []int{0}}}})
					}
				}
			}
		}
	}
	// the all-or-nothing body path: one message to two domains whose MX servers answer the
	// data differently; the aggregate error is built from a map of per-recipient errors, its
	// fields are read 64 times per error (see c16Incoherent)
	bodyShapes := []c05MX{shapes[0]}
	for _, f := range []string{"data451", "data554", "dropdata", "rcpt450"} {
		bodyShapes = append(bodyShapes, c05MX{TLS: "valid", TLSA: "none", AD: true, Listed: true, Ext: true, Fault: f})
	}
	for _, m1 := range bodyShapes {
		for _, m2 := range bodyShapes {
			emit(c05Case{Cfg: cfgs[0], Dom: []c05Dom{{MXAD: true, MX: []c05MX{m1}}, {MXAD: true, MX: []c05MX{m2}}}, Hist: []c05Msg{{Flag: "atomic", Doms: []int{0, 1}}}})
		}
	}
	r.Bound("cases_enumerated", idx)
}
