package exterrors

// C16 (sites part) — every SMTP error literal and every helper-computed code
// pair in the source tree (a finite, fully enumerated set of program points).

import (
	"errors"
	"fmt"
	"go/ast"
	"go/parser"
	"go/token"
	"os"
	"path/filepath"
	"strconv"
	"strings"
	"testing"

	"github.com/foxcpp/maddy/internal/verif/vx"
)

type c16Site struct {
	Where string `json:"where"`
	What  string `json:"what"`
}

func c16IntLit(e ast.Expr) (int, bool) {
	if b, ok := e.(*ast.BasicLit); ok && b.Kind == token.INT {
		n, err := strconv.Atoi(b.Value)
		return n, err == nil
	}
	return 0, false
}

func c16IsCall(e ast.Expr, name string) (*ast.CallExpr, bool) {
	c, ok := e.(*ast.CallExpr)
	if !ok {
		return nil, false
	}
	switch f := c.Fun.(type) {
	case *ast.SelectorExpr:
		return c, f.Sel.Name == name
	case *ast.Ident:
		return c, f.Name == name
	}
	return nil, false
}

func TestVerifC16Sites(t *testing.T) {
	r := vx.Start("C16", "sites")
	defer r.Finish()
	r.Rule("every composite literal of type SMTPError in the non-test sources of the tree and every SMTPCode/SMTPEnchCode call: literal basic codes are 4yz/5yz, a literal enhanced code has the class of the literal basic code, SMTPCode(err, t, p) has t in 4yz and p in 5yz, a helper-computed basic code is paired with a helper-computed enhanced code; and the helpers themselves evaluated on temporary, permanent and unclassified errors. Non-trivial: distinct program points")
	if r.Replaying() && r.Replay() == nil {
		return
	}
	root := os.Getenv("VERIF_REPO")
	if root == "" {
		root = "../.."
	}
	// the helpers
	for _, e := range []struct {
		name string
		err  error
		temp bool
	}{{"temporary", WithTemporary(errors.New("x"), true), true}, {"permanent", WithTemporary(errors.New("x"), false), false}, {"unclassified", errors.New("x"), false}} {
		r.Eval()
		code := SMTPCode(e.err, 451, 554)
		ench := SMTPEnchCode(e.err, EnhancedCode{0, 4, 4})
		if code/100 != ench[0] {
			r.Violation("C16:helpers:classes-disagree", fmt.Sprintf("%s error: SMTPCode -> %d, SMTPEnchCode -> %d.%d.%d", e.name, code, ench[0], ench[1], ench[2]), c16Site{"framework/exterrors/smtp.go", e.name})
		}
		if (code/100 == 4) != e.temp {
			r.Violation("C16:helpers:class-vs-temporary", fmt.Sprintf("%s error: SMTPCode -> %d", e.name, code), c16Site{"framework/exterrors/smtp.go", e.name})
		}
		if ench[1] != 4 || ench[2] != 4 {
			r.Violation("C16:helpers:detail-changed", fmt.Sprint(ench), c16Site{"framework/exterrors/smtp.go", e.name})
		}
	}
	fset := token.NewFileSet()
	sites := 0
	filepath.Walk(root, func(path string, info os.FileInfo, err error) error {
		if err != nil {
			return nil
		}
		if info.IsDir() {
			if n := info.Name(); n == "verif" || n == ".git" || n == "tests" || n == "contrib" {
				return filepath.SkipDir
			}
			return nil
		}
		if !strings.HasSuffix(path, ".go") || strings.HasSuffix(path, "_test.go") {
			return nil
		}
		f, err := parser.ParseFile(fset, path, nil, 0)
		if err != nil {
			return nil
		}
		rel, _ := filepath.Rel(root, path)
		ast.Inspect(f, func(n ast.Node) bool {
			cl, ok := n.(*ast.CompositeLit)
			if !ok {
				return true
			}
			tn := ""
			switch t := cl.Type.(type) {
			case *ast.SelectorExpr:
				tn = t.Sel.Name
			case *ast.Ident:
				tn = t.Name
			}
			if tn != "SMTPError" {
				return true
			}
			var codeE, enchE ast.Expr
			for _, el := range cl.Elts {
				kv, ok := el.(*ast.KeyValueExpr)
				if !ok {
					continue
				}
				k, _ := kv.Key.(*ast.Ident)
				if k == nil {
					continue
				}
				switch k.Name {
				case "Code":
					codeE = kv.Value
				case "EnhancedCode":
					enchE = kv.Value
				}
			}
			if codeE == nil {
				return true
			}
			sites++
			r.Eval()
			where := fmt.Sprintf("%s:%d", rel, fset.Position(cl.Pos()).Line)
			r.Nontrivial(where)
			if sites%25 == 0 {
				r.Sample(c16Site{where, "SMTPError literal"})
			}
			bad := func(kind, what string) {
				r.Violation("C16:site:"+kind+":"+rel, where+": "+what, c16Site{where, what})
			}
			if code, ok := c16IntLit(codeE); ok {
				if code/100 != 4 && code/100 != 5 {
					bad("code-class", fmt.Sprintf("literal basic code %d", code))
				}
				if ecl, ok := enchE.(*ast.CompositeLit); ok && len(ecl.Elts) == 3 {
					if c0, ok := c16IntLit(ecl.Elts[0]); ok && c0 != code/100 {
						bad("classes-disagree", fmt.Sprintf("basic code %d with enhanced code class %d", code, c0))
					}
				} else if enchE != nil {
					if _, isHelper := c16IsCall(enchE, "SMTPEnchCode"); isHelper {
						bad("fixed-code-with-computed-enhanced", fmt.Sprintf("literal basic code %d with a helper-computed enhanced code", code))
					}
				}
				return true
			}
			if c, ok := c16IsCall(codeE, "SMTPCode"); ok && len(c.Args) == 3 {
				tc, ok1 := c16IntLit(c.Args[1])
				pc, ok2 := c16IntLit(c.Args[2])
				if ok1 && tc/100 != 4 || ok2 && pc/100 != 5 {
					bad("smtpcode-arguments", fmt.Sprintf("SMTPCode(err, %d, %d)", tc, pc))
				}
				if _, isHelper := c16IsCall(enchE, "SMTPEnchCode"); !isHelper {
					if ecl, ok := enchE.(*ast.CompositeLit); ok && len(ecl.Elts) == 3 {
						bad("computed-code-with-fixed-enhanced", "basic code depends on the error, enhanced code class is fixed")
					}
				}
			}
			return true
		})
		return nil
	})
	r.Bound("smtp_error_literals", sites)
	if sites < 50 {
		r.HarnessError(fmt.Sprintf("only %d SMTPError literals found under %s", sites, root))
	}
}
