package msgpipeline

// C07 — DMARC verdict and action equal the specification for every input.
// Exhaustive product of From shapes x DKIM result multisets x SPF result x
// alignment modes x policies x lookup outcomes through the real dmarc.Verifier
// and the pipeline's applyResults, against an RFC 7489 reference.

import (
	"bufio"
	"context"
	"encoding/json"
	"errors"
	"fmt"
	"net"
	"strings"
	"testing"

	"github.com/emersion/go-message/textproto"
	"github.com/emersion/go-msgauth/authres"
	"github.com/foxcpp/go-mockdns"
	"github.com/foxcpp/maddy/framework/buffer"
	"github.com/foxcpp/maddy/framework/exterrors"
	"github.com/foxcpp/maddy/framework/log"
	"github.com/foxcpp/maddy/framework/module"
	"github.com/foxcpp/maddy/internal/verif/vx"
	"golang.org/x/net/publicsuffix"
)

// DNS is case-insensitive: the table resolver answers for any spelling.
type c07Resolver struct {
	*mockdns.Resolver
}

func (r c07Resolver) LookupTXT(ctx context.Context, name string) ([]string, error) {
	return r.Resolver.LookupTXT(ctx, strings.ToLower(name))
}

type c07Auth struct {
	Value  string `json:"v"`
	Domain string `json:"d"`
}

type c07Case struct {
	FromShape string    `json:"from_shape"` // one | none | two-addr | two-fields | group | garbage
	FromDom   string    `json:"from_domain"`
	DKIM      []c07Auth `json:"dkim"`
	SPF       c07Auth   `json:"spf"`
	SPFHelo   bool      `json:"spf_helo"` // null sender: identity is the HELO name
	ADKIM     string    `json:"adkim"`    // r | s
	ASPF      string    `json:"aspf"`
	P         string    `json:"p"`
	SP        string    `json:"sp"`  // "" absent
	Pct       string    `json:"pct"` // "" absent | "100"
	Lookup    string    `json:"lookup"`
}

func c07Org(d string) (string, bool) {
	d = strings.ToLower(strings.TrimSuffix(d, "."))
	ps, _ := publicsuffix.PublicSuffix(d)
	if ps == d {
		return d, false // a public suffix has no organizational domain
	}
	o, err := publicsuffix.EffectiveTLDPlusOne(d)
	if err != nil {
		return d, false
	}
	return o, true
}

func c07Aligned(from, id, mode string) bool {
	f, i := strings.ToLower(from), strings.ToLower(id)
	if i == "" {
		return false
	}
	if mode == "s" {
		return f == i
	}
	of, okf := c07Org(f)
	if !okf {
		return f == i
	}
	oi, oki := c07Org(i)
	if !oki {
		return false
	}
	return of == oi
}

type c07Expect struct {
	pass      bool // verdict must be pass
	noPass    bool // verdict must not be pass
	reply     int  // 0 accept, 4, 5; -1: 4 or 5 both acceptable
	quarantine int // 1 must, 0 must not, -1 undecided
	note      string
}

func c07Header(c c07Case) string {
	a := "a@" + c.FromDom
	switch c.FromShape {
	case "one":
		return "From: Author <" + a + ">\r\nSubject: x\r\n\r\n"
	case "none":
		return "Subject: x\r\n\r\n"
	case "two-addr":
		return "From: <" + a + ">, <b@" + c.FromDom + ">\r\nSubject: x\r\n\r\n"
	case "two-fields":
		return "From: <" + a + ">\r\nFrom: <b@" + c.FromDom + ">\r\nSubject: x\r\n\r\n"
	case "empty-field-then-one":
		// two From fields, the first of them empty
		return "From:\r\nFrom: <" + a + ">\r\nSubject: x\r\n\r\n"
	case "one-then-empty-field":
		return "From: <" + a + ">\r\nFrom:\r\nSubject: x\r\n\r\n"
	case "group":
		return "From: Team: <" + a + ">, <b@" + c.FromDom + ">;\r\nSubject: x\r\n\r\n"
	default:
		return "From: <<" + a + "\r\nSubject: x\r\n\r\n"
	}
}

func c07Record(c c07Case) string {
	rec := "v=DMARC1; p=" + c.P
	if c.SP != "" {
		rec += "; sp=" + c.SP
	}
	if c.ADKIM != "" {
		rec += "; adkim=" + c.ADKIM
	}
	if c.ASPF != "" {
		rec += "; aspf=" + c.ASPF
	}
	if c.Pct != "" {
		rec += "; pct=" + c.Pct
	}
	return rec
}

func c07Zones(c c07Case) (map[string]mockdns.Zone, string) {
	z := map[string]mockdns.Zone{}
	from := strings.ToLower(c.FromDom)
	org, hasOrg := c07Org(from)
	where := "" // where the applicable record is found: "from", "org", ""
	switch c.Lookup {
	case "at-domain":
		z["_dmarc."+from+"."] = mockdns.Zone{TXT: []string{c07Record(c)}}
		where = "from"
	case "at-org":
		if hasOrg {
			z["_dmarc."+org+"."] = mockdns.Zone{TXT: []string{c07Record(c)}}
			where = "org"
			if org == from {
				where = "from"
			}
		}
	case "none":
		z["_dmarc."+from+"."] = mockdns.Zone{TXT: []string{"unrelated txt"}}
	case "multiple":
		z["_dmarc."+from+"."] = mockdns.Zone{TXT: []string{c07Record(c), "v=DMARC1; p=none"}}
	case "nxdomain":
	case "servfail":
		z["_dmarc."+from+"."] = mockdns.Zone{Err: &net.DNSError{Err: "server misbehaving", IsTemporary: true}}
	case "timeout":
		// the lookup times out: a temporary failure as well (net.DNSError.Temporary covers both)
		z["_dmarc."+from+"."] = mockdns.Zone{Err: &net.DNSError{Err: "i/o timeout", IsTimeout: true}}
	case "servfail-at-org":
		// nothing at the author domain; the query for the organizational domain fails temporarily
		if hasOrg && org != from {
			z["_dmarc."+org+"."] = mockdns.Zone{Err: &net.DNSError{Err: "server misbehaving", IsTemporary: true}}
			where = "org-servfail"
		}
	case "unrelated-at-domain+at-org":
		// a TXT set without a DMARC record at the author domain: the organizational domain's record applies
		z["_dmarc."+from+"."] = mockdns.Zone{TXT: []string{"unrelated txt"}}
		if hasOrg && org != from {
			z["_dmarc."+org+"."] = mockdns.Zone{TXT: []string{c07Record(c)}}
			where = "org"
		}
	}
	return z, where
}

// c07Reference computes what the statement demands.
func c07Reference(c c07Case, where string) c07Expect {
	if c.FromShape != "one" {
		return c07Expect{noPass: true, reply: -2, quarantine: -1, note: "no single author: never a pass"}
	}
	if c.Lookup == "servfail" || c.Lookup == "timeout" || where == "org-servfail" {
		return c07Expect{noPass: true, reply: 4, quarantine: -1, note: "temporary policy lookup failure: refuse temporarily"}
	}
	if where == "" {
		return c07Expect{noPass: true, reply: 0, quarantine: 0, note: "no policy published: accept"}
	}
	dkimPass, tempAligned, tempAny := false, false, false
	for _, d := range c.DKIM {
		al := c07Aligned(c.FromDom, d.Domain, c.ADKIM)
		if d.Value == "pass" && al {
			dkimPass = true
		}
		if d.Value == "temperror" {
			tempAny = true
			if al {
				tempAligned = true
			}
		}
	}
	spfAl := c07Aligned(c.FromDom, c.SPF.Domain, c.ASPF)
	spfPass := c.SPF.Value == "pass" && spfAl
	if c.SPF.Value == "temperror" {
		tempAny = true
		if spfAl {
			tempAligned = true
		}
	}
	if dkimPass || spfPass {
		return c07Expect{pass: true, reply: 0, quarantine: 0, note: "aligned pass"}
	}
	policy := c.P
	if where == "org" && c.SP != "" {
		policy = c.SP
	}
	e := c07Expect{noPass: true}
	switch policy {
	case "reject":
		switch {
		case tempAligned:
			e.reply = 4
		case tempAny:
			e.reply = -1 // temperror on an identifier that cannot align: the statement does not decide
		default:
			e.reply = 5
		}
		e.quarantine = -1
	case "quarantine":
		e.reply, e.quarantine = 0, 1
	default:
		e.reply, e.quarantine = 0, 0
	}
	e.note = "no aligned pass: policy " + policy
	return e
}

// c07Check hands the authentication results to the pipeline the way the SPF and DKIM checks
// do: as the result of its body stage. When a result is a failure the check reports it with
// a reason and no action flag - what a check does whose failure action is "ignore" (the
// default of check.spf fail_action and check.dkim broken_sig_action / no_sig_action).
type c07Check struct{ results []authres.Result }

func (c *c07Check) CheckStateForMsg(context.Context, *module.MsgMetadata) (module.CheckState, error) {
	return c, nil
}
func (c *c07Check) CheckConnection(context.Context) module.CheckResult      { return module.CheckResult{} }
func (c *c07Check) CheckSender(context.Context, string) module.CheckResult { return module.CheckResult{} }
func (c *c07Check) CheckRcpt(context.Context, string) module.CheckResult   { return module.CheckResult{} }
func (c *c07Check) CheckBody(context.Context, textproto.Header, buffer.Buffer) module.CheckResult {
	res := module.CheckResult{AuthResult: c.results}
	for _, r := range c.results {
		v := authres.ResultValue("")
		switch x := r.(type) {
		case *authres.DKIMResult:
			v = x.Value
		case *authres.SPFResult:
			v = x.Value
		}
		if v != authres.ResultPass && v != authres.ResultNone && v != "" {
			res.Reason = errors.New("authentication failed (action: ignore)")
		}
	}
	return res
}
func (c *c07Check) Close() error { return nil }

func c07Eval(r *vx.Run, c c07Case) {
	zones, where := c07Zones(c)
	exp := c07Reference(c, where)
	hdr, err := textproto.ReadHeader(bufio.NewReader(strings.NewReader(c07Header(c))))
	if err != nil {
		return
	}
	var results []authres.Result
	for _, d := range c.DKIM {
		results = append(results, &authres.DKIMResult{Value: authres.ResultValue(d.Value), Domain: d.Domain})
	}
	spf := &authres.SPFResult{Value: authres.ResultValue(c.SPF.Value)}
	if c.SPFHelo {
		spf.Helo = c.SPF.Domain
	} else {
		spf.From = c.SPF.Domain
		spf.Helo = "helo.unrelated.net"
	}
	results = append(results, spf)
	r.Eval()
	meta := &module.MsgMetadata{ID: "c07"}
	cr := newCheckRunner(meta, log.Logger{Out: log.NopOutput{}}, c07Resolver{&mockdns.Resolver{Zones: zones}})
	cr.doDMARC = true
	var applyErr error
	p := vx.Catch(func() {
		if err := cr.checkBody(context.Background(), []module.Check{&c07Check{results}}, hdr, nil); err != nil {
			applyErr = err
			return
		}
		applyErr = cr.applyResults("mx.verif.example", &hdr)
		cr.close()
	})
	if p != nil {
		r.Violation("C07:panic", fmt.Sprintf("%v on %s", p, vx.JSON(c)), c)
		return
	}
	verdict := ""
	for _, res := range cr.mergedRes.AuthResult {
		if d, ok := res.(*authres.DMARCResult); ok {
			verdict = string(d.Value)
		}
	}
	reply := 0
	if applyErr != nil {
		var se *exterrors.SMTPError
		if !errors.As(applyErr, &se) {
			r.Violation("C07:reply-not-smtp-error", fmt.Sprint(applyErr), c)
			return
		}
		reply = se.Code / 100
		if int(se.EnhancedCode[0]) != reply {
			r.Violation("C07:reply-class-incoherent", fmt.Sprintf("%d %v", se.Code, se.EnhancedCode), c)
		}
	}
	bad := func(kind, f string, a ...any) {
		r.Violation("C07:"+kind, fmt.Sprintf(f, a...)+fmt.Sprintf("\ncase %s\nrecord %q found at %q; implementation: verdict=%s reply=%dxx quarantine=%v; reference: %s", vx.JSON(c), c07Record(c), where, verdict, reply, meta.Quarantine, exp.note), c)
	}
	upper := c.FromDom != strings.ToLower(c.FromDom)
	for _, d := range c.DKIM {
		if d.Domain != strings.ToLower(d.Domain) {
			upper = true
		}
	}
	if c.SPF.Domain != strings.ToLower(c.SPF.Domain) {
		upper = true
	}
	sfx := ""
	if upper {
		sfx = ":upper-case-domain"
	}
	if exp.pass && verdict != "pass" {
		bad("aligned-pass-not-honoured"+sfx, "verdict %q although an aligned identifier passed", verdict)
		return
	}
	if exp.noPass && verdict == "pass" {
		bad("pass-without-aligned-identifier"+sfx, "verdict pass without an aligned passing identifier")
		return
	}
	switch exp.reply {
	case 0:
		if reply != 0 {
			bad("refused-against-policy"+sfx, "message refused with %dxx", reply)
			return
		}
	case 4, 5:
		if reply != exp.reply {
			bad(fmt.Sprintf("reply-class-want-%dxx", exp.reply)+sfx, "reply %dxx", reply)
			return
		}
	case -1:
		if reply != 4 && reply != 5 {
			bad("not-refused-under-reject"+sfx, "reply %dxx", reply)
			return
		}
	}
	if exp.quarantine == 1 && !meta.Quarantine {
		bad("not-quarantined"+sfx, "quarantine flag not set")
	} else if exp.quarantine == 0 && meta.Quarantine {
		bad("quarantined-against-policy"+sfx, "quarantine flag set")
	}
	r.Outcome(fmt.Sprintf("verdict=%s/reply=%d/q=%v", verdict, reply, meta.Quarantine))
	if exp.pass || exp.reply != 0 || exp.quarantine == 1 {
		r.Nontrivial(vx.JSON(c))
	}
}

type c07Family struct {
	org, sub, sibling, suffix, unrelated string
}

var c07Families = []c07Family{
	{"example.org", "sub.example.org", "other.example.org", "org", "unrelated.org"},
	{"victim.co.uk", "sub.victim.co.uk", "sib.victim.co.uk", "co.uk", "attacker.co.uk"},
}

func TestVerifC07(t *testing.T) {
	r := vx.Start("C07", "dmarc")
	defer r.Finish()
	r.Rule("part A (alignment): From domain in {organizational, subdomain, public suffix} under a single-label and a multi-label public suffix, lower- and upper-case x every multiset of 1-2 DKIM results (values x {exact, subdomain, sibling, public suffix, unrelated} x case, plus look-alike names ending in the organizational domain without a label boundary) x one SPF result (values x MAIL FROM/HELO identity x the same domains) x adkim/aspf in {r,s}^2, with p=reject sp=quarantine at the organizational domain; part B (policy): p x sp x pct x lookup outcome {at domain, at organizational domain, none, multiple, NXDOMAIN, SERVFAIL, time-out, nothing at the domain + SERVFAIL at the organizational domain, unrelated TXT at the domain + record at the organizational domain} x From shapes {one, none, two addresses, two fields, an empty field before / after a filled one, group, unparsable} x representative authentication outcomes; every case through the real dmarc.Verifier as driven by the pipeline's checkRunner (checkBody + applyResults), the SPF/DKIM results arriving as the body-stage result of a scripted check (with a reason and no action flag when a result is a failure, as a check with action 'ignore' reports it); oracle: RFC 7489 reference over the public-suffix list (pass iff aligned pass; action = p / sp; temperror on an alignable identifier under reject => 4xx; temporary lookup failure => 4xx; no single author => never pass). Non-trivial: distinct cases whose reference outcome is pass, refusal or quarantine")
	r.Assume("golang.org/x/net/publicsuffix on lower-cased names is the ground truth for organizational domains; a temperror on an identifier that cannot align may be answered 4xx or 5xx under p=reject (the statement does not decide)")
	if rp := r.Replay(); rp != nil {
		var c c07Case
		if json.Unmarshal(rp, &c) != nil {
			r.HarnessError("bad replay")
			return
		}
		c07Eval(r, c)
		return
	}
	if r.Replaying() {
		return
	}
	values := []string{"pass", "fail", "temperror", "none"}
	if vx.Thorough() {
		values = []string{"pass", "fail", "none", "neutral", "softfail", "temperror", "permerror"}
	}
	idx := 0
	for _, fam := range c07Families {
		doms := []string{fam.org, fam.sub, fam.sibling, fam.suffix, fam.unrelated}
		var authDoms []string
		for _, d := range doms {
			authDoms = append(authDoms, d, strings.ToUpper(d))
		}
		// a name that ends in the organizational domain without a label boundary, and a host below it
		authDoms = append(authDoms, "not"+fam.org, "mail.not"+fam.org)
		var froms []string
		for _, d := range []string{fam.org, fam.sub, fam.suffix} {
			froms = append(froms, d, strings.ToUpper(d))
		}
		var dk []c07Auth
		for _, v := range values {
			for _, d := range authDoms {
				dk = append(dk, c07Auth{v, d})
			}
		}
		var dkSets [][]c07Auth
		for i := range dk {
			dkSets = append(dkSets, []c07Auth{dk[i]})
		}
		for i := range dk {
			for j := i; j < len(dk); j++ {
				dkSets = append(dkSets, []c07Auth{dk[i], dk[j]})
			}
		}
		if vx.Thorough() {
			// triples over the lower-case domains and the three decisive values
			var small []c07Auth
			for _, v := range []string{"pass", "fail", "temperror"} {
				for _, d := range doms {
					small = append(small, c07Auth{v, d})
				}
			}
			for i := range small {
				for j := i; j < len(small); j++ {
					for k := j; k < len(small); k++ {
						dkSets = append(dkSets, []c07Auth{small[i], small[j], small[k]})
					}
				}
			}
		}
		// part A
		for _, from := range froms {
			for _, ds := range dkSets {
				idx++
				if !r.Mine(idx) {
					continue
				}
				for _, sv := range values {
					for _, sd := range authDoms {
						for _, helo := range []bool{false, true} {
							for _, m := range []string{"rr", "rs", "sr", "ss"} {
								c := c07Case{FromShape: "one", FromDom: from, DKIM: ds, SPF: c07Auth{sv, sd}, SPFHelo: helo,
									ADKIM: m[:1], ASPF: m[1:], P: "reject", SP: "quarantine", Lookup: "at-org"}
								c07Eval(r, c)
							}
						}
					}
				}
				if idx%997 == 0 {
					r.Sample(c07Case{FromShape: "one", FromDom: from, DKIM: ds, SPF: c07Auth{"fail", fam.unrelated}, ADKIM: "r", ASPF: "r", P: "reject", SP: "quarantine", Lookup: "at-org"})
				}
			}
		}
		// part B
		reps := []struct {
			dk  []c07Auth
			spf c07Auth
		}{
			{[]c07Auth{{"pass", fam.org}}, c07Auth{"fail", fam.unrelated}},
			{[]c07Auth{{"none", ""}}, c07Auth{"pass", fam.sub}},
			{[]c07Auth{{"fail", fam.org}}, c07Auth{"fail", fam.org}},
			{[]c07Auth{{"pass", fam.unrelated}}, c07Auth{"pass", fam.unrelated}},
			{[]c07Auth{{"temperror", fam.org}}, c07Auth{"fail", fam.org}},
			{[]c07Auth{{"fail", fam.org}}, c07Auth{"temperror", fam.org}},
			{[]c07Auth{{"temperror", fam.unrelated}}, c07Auth{"none", fam.unrelated}},
			{[]c07Auth{{"pass", fam.sibling}, {"temperror", fam.org}}, c07Auth{"softfail", fam.org}},
		}
		for _, shape := range []string{"one", "none", "two-addr", "two-fields", "empty-field-then-one", "one-then-empty-field", "group", "garbage"} {
			for _, from := range froms {
				for _, rep := range reps {
					for _, m := range []string{"rr", "ss"} {
						for _, p := range []string{"none", "quarantine", "reject"} {
							for _, sp := range []string{"", "none", "quarantine", "reject"} {
								for _, pct := range []string{"", "100"} {
									for _, lk := range []string{"at-domain", "at-org", "none", "multiple", "nxdomain", "servfail", "timeout", "servfail-at-org", "unrelated-at-domain+at-org"} {
										idx++
										if !r.Mine(idx) {
											continue
										}
										c07Eval(r, c07Case{FromShape: shape, FromDom: from, DKIM: rep.dk, SPF: rep.spf, ADKIM: m[:1], ASPF: m[1:], P: p, SP: sp, Pct: pct, Lookup: lk})
									}
								}
							}
						}
					}
				}
			}
		}
	}
}
