package msgpipeline

// C06 — check verdicts are always enforced and every check sees every stage
// once. Real pipelines built from generated placements of scripted checks;
// check_runner.go and msgpipeline.go are compiled from scheduler-rewritten
// copies so that every completion order of the parallel check goroutines (and
// every map iteration order) is enumerated; reference = verdict fold.

import (
	"bufio"
	"context"
	"errors"
	"fmt"
	"sort"
	"strings"
	"testing"

	"github.com/emersion/go-message/textproto"
	"github.com/emersion/go-msgauth/authres"
	"github.com/emersion/go-smtp"
	"github.com/foxcpp/go-mockdns"
	"github.com/foxcpp/maddy/framework/buffer"
	"github.com/foxcpp/maddy/framework/config"
	"github.com/foxcpp/maddy/framework/exterrors"
	"github.com/foxcpp/maddy/framework/module"
	"github.com/foxcpp/maddy/internal/verif/vsched"
	"github.com/foxcpp/maddy/internal/verif/vx"
)

const (
	vNone = iota
	vIgnore
	vQuarantine
	vReject
)

var c06VNames = []string{"none", "ignore", "quarantine", "reject"}

type c06Call struct {
	check, stage, item string
	state              int
	verdict            int
}

type c06World struct {
	calls    []c06Call
	states   int
	verdicts map[string]int // "check/stage" -> verdict (rcpt verdicts apply to in-scope recipients only)
	scope    map[string][]string
	auth     map[string][]authres.Result // check -> auth results returned at body stage
	tgt      map[string]*c06TgtRec
	order    []string
}

type c06TgtRec struct {
	started, aborted, committed int
	rcpts                       []string
	bodySeen                    int
	quarantineAtBody            []bool
	afterClose                  []string
}

var c06W *c06World

type c06Check struct{ name string }

func (c *c06Check) Name() string           { return "verif_check" }
func (c *c06Check) InstanceName() string   { return c.name }
func (c *c06Check) Init(*config.Map) error { return nil }
func (c *c06Check) CheckStateForMsg(ctx context.Context, m *module.MsgMetadata) (module.CheckState, error) {
	c06W.states++
	return &c06State{c.name, c06W.states}, nil
}

type c06State struct {
	check string
	id    int
}

func c06RcptBlock(r string) string {
	switch {
	case strings.HasSuffix(r, "@a.example"):
		return "A"
	case strings.HasSuffix(r, "@b.example"):
		return "B"
	}
	return "C"
}

func (s *c06State) result(stage, item string) module.CheckResult {
	w := c06W
	v := w.verdicts[s.check+"/"+stage]
	if stage == "rcpt" && v != vNone {
		// recipient verdicts only for recipients in the check's scope
		in := false
		for _, sc := range w.scope[s.check] {
			if sc == "G" || sc == "S" || sc == c06RcptBlock(item) {
				in = true
			}
		}
		if !in {
			v = vNone
		}
	}
	vsched.Yield()
	w.calls = append(w.calls, c06Call{s.check, stage, item, s.id, v})
	res := module.CheckResult{}
	if stage == "body" {
		res.AuthResult = w.auth[s.check]
	}
	reason := &exterrors.SMTPError{Code: 550, EnhancedCode: exterrors.EnhancedCode{5, 7, 1}, Message: "scripted verdict of " + s.check + " at " + stage, CheckName: s.check}
	switch v {
	case vIgnore:
		res.Reason = reason
	case vQuarantine:
		res.Reason, res.Quarantine = reason, true
	case vReject:
		res.Reason, res.Reject = reason, true
	}
	return res
}

func (s *c06State) CheckConnection(ctx context.Context) module.CheckResult { return s.result("conn", "") }
func (s *c06State) CheckSender(ctx context.Context, from string) module.CheckResult {
	return s.result("sender", from)
}
func (s *c06State) CheckRcpt(ctx context.Context, to string) module.CheckResult {
	return s.result("rcpt", to)
}
func (s *c06State) CheckBody(ctx context.Context, h textproto.Header, b buffer.Buffer) module.CheckResult {
	return s.result("body", "")
}
func (s *c06State) Close() error { return nil }

type c06Target struct{ name string }

func (t *c06Target) Name() string           { return "verif_target" }
func (t *c06Target) InstanceName() string   { return t.name }
func (t *c06Target) Init(*config.Map) error { return nil }
func (t *c06Target) rec() *c06TgtRec {
	r := c06W.tgt[t.name]
	if r == nil {
		r = &c06TgtRec{}
		c06W.tgt[t.name] = r
	}
	return r
}
func (t *c06Target) Start(ctx context.Context, m *module.MsgMetadata, from string) (module.Delivery, error) {
	t.rec().started++
	return &c06Delivery{t, m, false}, nil
}

type c06Delivery struct {
	t      *c06Target
	meta   *module.MsgMetadata
	closed bool
}

func (d *c06Delivery) note(what string) {
	if d.closed {
		d.t.rec().afterClose = append(d.t.rec().afterClose, what)
	}
}
func (d *c06Delivery) AddRcpt(ctx context.Context, to string, _ smtp.RcptOptions) error {
	d.note("AddRcpt")
	d.t.rec().rcpts = append(d.t.rec().rcpts, to)
	return nil
}
func (d *c06Delivery) Body(ctx context.Context, h textproto.Header, b buffer.Buffer) error {
	d.note("Body")
	r := d.t.rec()
	r.bodySeen++
	r.quarantineAtBody = append(r.quarantineAtBody, d.meta.Quarantine)
	return nil
}
func (d *c06Delivery) Abort(ctx context.Context) error {
	d.note("Abort")
	d.closed = true
	d.t.rec().aborted++
	return nil
}
func (d *c06Delivery) Commit(ctx context.Context) error {
	d.note("Commit")
	d.closed = true
	d.t.rec().committed++
	return nil
}

var c06Registered bool

func c06Register() {
	if c06Registered {
		return
	}
	c06Registered = true
	var grp []module.Check
	for _, n := range []string{"k1", "k2", "k3", "k4", "k5"} {
		c := &c06Check{n}
		module.RegisterInstance(c, nil)
		if n <= "k3" {
			grp = append(grp, c)
		}
	}
	// a named group of checks ('checks grp3 { k1 k2 k3 }'), as the real Init builds it
	// (appended one by one: length 3, capacity 4)
	cg := &CheckGroup{instName: "grp3"}
	for _, c := range grp {
		cg.L = append(cg.L, c)
	}
	module.RegisterInstance(cg, nil)
	module.Initialized["grp3"] = true
	for _, n := range []string{"uA", "uB", "uC"} {
		module.RegisterInstance(&c06Target{n}, nil)
	}
}

// placement: where each check is configured
type c06Placement struct {
	Name string
	G, S, A, B []string
	DMARC      string // "", "quarantine", "reject"
	// NullSender: the envelope sender is the null reverse-path (a bounce)
	NullSender bool `json:",omitempty"`
	// GroupIn: blocks ("G","S","A","B") whose first check directive references the
	// named group grp3 = {k1,k2,k3}; the block's own checks follow in a second directive
	GroupIn []string `json:",omitempty"`
}

func (p c06Placement) group(b string) []config.Node {
	for _, x := range p.GroupIn {
		if x == b {
			return []config.Node{{Name: "check", Args: []string{"&grp3"}}}
		}
	}
	return nil
}

func (p c06Placement) sender() string {
	if p.NullSender {
		return ""
	}
	return "s@sender.example"
}

func c06CheckNode(names []string) config.Node {
	n := config.Node{Name: "check"}
	for _, c := range names {
		n.Children = append(n.Children, config.Node{Name: "&" + c})
	}
	return n
}

func (p c06Placement) nodes() []config.Node {
	var ns []config.Node
	ns = append(ns, p.group("G")...)
	if len(p.G) > 0 {
		ns = append(ns, c06CheckNode(p.G))
	}
	if p.DMARC != "" {
		ns = append(ns, config.Node{Name: "dmarc", Args: []string{"yes"}})
	}
	var src []config.Node
	src = append(src, p.group("S")...)
	if len(p.S) > 0 {
		src = append(src, c06CheckNode(p.S))
	}
	blk := func(checks []string, tgt string) []config.Node {
		var b []config.Node
		switch tgt {
		case "uA":
			b = append(b, p.group("A")...)
		case "uB":
			b = append(b, p.group("B")...)
		}
		if len(checks) > 0 {
			b = append(b, c06CheckNode(checks))
		}
		return append(b, config.Node{Name: "deliver_to", Args: []string{"&" + tgt}})
	}
	src = append(src, config.Node{Name: "destination", Args: []string{"a.example"}, Children: blk(p.A, "uA")})
	src = append(src, config.Node{Name: "destination", Args: []string{"b.example"}, Children: blk(p.B, "uB")})
	src = append(src, config.Node{Name: "default_destination", Children: blk(nil, "uC")})
	if p.NullSender {
		// the null reverse-path matches no source rule: the blocks hang off default_source
		ns = append(ns, config.Node{Name: "source", Args: []string{"other.example"}, Children: []config.Node{{Name: "reject"}}})
		ns = append(ns, config.Node{Name: "default_source", Children: src})
		return ns
	}
	ns = append(ns, config.Node{Name: "source", Args: []string{"sender.example"}, Children: src})
	ns = append(ns, config.Node{Name: "default_source", Children: []config.Node{{Name: "reject"}}})
	return ns
}

func (p c06Placement) scopes() map[string][]string {
	m := map[string][]string{}
	for _, c := range p.G {
		m[c] = append(m[c], "G")
	}
	for _, c := range p.S {
		m[c] = append(m[c], "S")
	}
	for _, c := range p.A {
		m[c] = append(m[c], "A")
	}
	for _, c := range p.B {
		m[c] = append(m[c], "B")
	}
	for _, b := range p.GroupIn {
		for _, c := range []string{"k1", "k2", "k3"} {
			m[c] = append(m[c], b)
		}
	}
	return m
}

type c06Case struct {
	Placement c06Placement   `json:"placement"`
	Verdicts  map[string]int `json:"verdicts"`
	Rcpts     []string       `json:"rcpts"`
	NonAtomic bool           `json:"per_recipient_body_path"`
}

type c06Obs struct {
	mailErr  error
	rcptErr  map[string]error
	bodyErr  error
	statuses map[string]error
	statusGap string
	bodyRun  bool
	panicked any
}

type c06Status struct {
	m     map[string]error
	fails map[string]int // failing statuses per address (an address may be named by several RCPT commands)
}

func (s *c06Status) SetStatus(r string, err error) {
	if err != nil {
		s.m[r] = err
		if s.fails != nil {
			s.fails[r]++
		}
	}
}

func c06Scenario(c c06Case, limit int) vx.ScheduleScenario {
	name := fmt.Sprintf("%s|%v|%v|na=%v", c.Placement.Name, c06VerdictString(c.Verdicts), c.Rcpts, c.NonAtomic)
	return vx.ScheduleScenario{Name: name, Bound: 0, FreeLimit: limit, Opt: vsched.Options{MaxSteps: 20000, PermuteMaps: true}, Make: func() vsched.Scenario {
		w := &c06World{verdicts: c.Verdicts, scope: c.Placement.scopes(), tgt: map[string]*c06TgtRec{}, auth: map[string][]authres.Result{}}
		obs := &c06Obs{rcptErr: map[string]error{}, statuses: map[string]error{}}
		var loadErr error
		return vsched.Scenario{
			Root: func() {
				c06W = w
				p, err := New(map[string]interface{}{}, c.Placement.nodes())
				if err != nil {
					loadErr = err
					return
				}
				p.Hostname = "mx.verif.example"
				if c.Placement.DMARC != "" {
					p.Resolver = &mockdns.Resolver{Zones: map[string]mockdns.Zone{
						"_dmarc.sender.example.": {TXT: []string{"v=DMARC1; p=" + c.Placement.DMARC}},
					}}
					first := ""
					for _, l := range [][]string{c.Placement.G, c.Placement.S, c.Placement.A, c.Placement.B} {
						if len(l) > 0 && first == "" {
							first = l[0]
						}
					}
					w.auth[first] = []authres.Result{&authres.SPFResult{Value: authres.ResultFail, From: "sender.example"}, &authres.DKIMResult{Value: authres.ResultNone}}
				}
				ctx := context.Background()
				meta := &module.MsgMetadata{ID: "c06", OriginalFrom: c.Placement.sender()}
				d, err := p.Start(ctx, meta, c.Placement.sender())
				if err != nil {
					obs.mailErr = err
					return
				}
				accepted := 0
				for _, r := range c.Rcpts {
					if err := d.AddRcpt(ctx, r, smtp.RcptOptions{}); err != nil {
						obs.rcptErr[r] = err
					} else {
						accepted++
					}
				}
				if accepted == 0 {
					d.Abort(ctx)
					return
				}
				hdr, _ := textproto.ReadHeader(bufio.NewReader(strings.NewReader("From: <s@sender.example>\r\nSubject: x\r\n\r\n")))
				body := buffer.MemoryBuffer{Slice: []byte("hi\r\n")}
				obs.bodyRun = true
				if c.NonAtomic {
					sc := &c06Status{obs.statuses, map[string]int{}}
					d.(module.PartialDelivery).BodyNonAtomic(ctx, sc, hdr, body)
					// an address named by k accepted RCPT commands is owed k results: a refusal
					// reported for it must be reported k times (the server answers every command;
					// what is not reported is filled in as success)
					named := map[string]int{}
					for _, r := range c.Rcpts {
						if obs.rcptErr[r] == nil {
							named[r]++
						}
					}
					for r, k := range named {
						if n := sc.fails[r]; n != 0 && n != k {
							obs.statusGap = fmt.Sprintf("%s was named by %d accepted RCPT commands and got %d failure statuses (%v)", r, k, n, obs.statuses[r])
						}
					}
					failed := 0
					for _, r := range c.Rcpts {
						if obs.rcptErr[r] == nil && obs.statuses[r] != nil {
							failed++
						}
					}
					if failed == accepted {
						obs.bodyErr = errors.New("all recipients failed")
						d.Abort(ctx)
						return
					}
					d.Commit(ctx)
					return
				}
				if err := d.Body(ctx, hdr, body); err != nil {
					obs.bodyErr = err
					d.Abort(ctx)
					return
				}
				d.Commit(ctx)
			},
			Check: func(o *vsched.Outcome) (string, string) {
				if loadErr != nil {
					return "HARNESS:load", loadErr.Error()
				}
				if len(o.Panics) > 0 {
					return "C06:panic:" + vx.PanicSite(o.Panics[0]), o.Panics[0]
				}
				if o.Deadlock || o.StepCap {
					return "C06:hang", strings.Join(o.Blocked, "; ")
				}
				if obs.statusGap != "" {
					return "C06:refusal-not-reported-for-every-rcpt-command", obs.statusGap + fmt.Sprintf("\nplacement %+v verdicts {%s} recipients %v", c.Placement, c06VerdictString(c.Verdicts), c.Rcpts)
				}
				fp, detail := c06Judge(c, w, obs)
				if fp == "" {
					// observation class (outcome histogram): where the transaction ended
					refused, quarantined := 0, false
					for _, e := range obs.rcptErr {
						if e != nil {
							refused++
						}
					}
					for _, t := range w.tgt {
						if t != nil {
							for _, q := range t.quarantineAtBody {
								quarantined = quarantined || q
							}
						}
					}
					switch {
					case obs.mailErr != nil:
						o.Note = "MAIL refused"
					case refused == len(c.Rcpts):
						o.Note = "every RCPT refused"
					case obs.bodyErr != nil:
						o.Note = fmt.Sprintf("message refused at body stage (%d RCPT refused)", refused)
					default:
						o.Note = fmt.Sprintf("delivered (%d RCPT refused, quarantined=%v, per-recipient path=%v)", refused, quarantined, c.NonAtomic)
					}
				}
				return fp, detail
			},
		}
	}}
}

func c06VerdictString(v map[string]int) string {
	var ks []string
	for k, x := range v {
		if x != vNone {
			ks = append(ks, k+"="+c06VNames[x])
		}
	}
	sort.Strings(ks)
	return strings.Join(ks, ",")
}

// c06Judge: the reference verdict fold and call-log oracle.
func c06Judge(c c06Case, w *c06World, obs *c06Obs) (string, string) {
	path := "atomic"
	if c.NonAtomic {
		path = "per-recipient"
	}
	fail := func(kind, f string, a ...any) (string, string) {
		var cl []string
		for _, x := range w.calls {
			cl = append(cl, fmt.Sprintf("%s#%d.%s(%s)=%s", x.check, x.state, x.stage, x.item, c06VNames[x.verdict]))
		}
		return "C06:" + kind, fmt.Sprintf(f, a...) + fmt.Sprintf("\nplacement %+v verdicts {%s} recipients %v body path %s\ncalls: %s\nMAIL err=%v RCPT errs=%v body err=%v statuses=%v", c.Placement, c06VerdictString(c.Verdicts), c.Rcpts, path, strings.Join(cl, " "), obs.mailErr, obs.rcptErr, obs.bodyErr, obs.statuses)
	}
	// (1) every state sees each stage item at most once
	seen := map[string]int{}
	for _, x := range w.calls {
		k := fmt.Sprintf("%s#%d/%s/%s", x.check, x.state, x.stage, x.item)
		seen[k]++
		if seen[k] > 1 {
			return fail("seen-twice:"+x.stage, "check %s (state %d) saw %s %q %d times", x.check, x.state, x.stage, x.item, seen[k])
		}
	}
	rejectAt := func(pred func(x c06Call) bool) bool {
		for _, x := range w.calls {
			if x.verdict == vReject && pred(x) {
				return true
			}
		}
		return false
	}
	scope := c.Placement.scopes()
	inScope := func(check, s string) bool {
		for _, x := range scope[check] {
			if x == s {
				return true
			}
		}
		return false
	}
	sawOnce := func(check, stage, item string) bool {
		n := 0
		for _, x := range w.calls {
			if x.check == check && x.stage == stage && x.item == item {
				n++
			}
		}
		return n >= 1
	}
	// (2) MAIL
	mailRejected := false
	for ch := range scope {
		if (inScope(ch, "G") || inScope(ch, "S")) && (c.Verdicts[ch+"/conn"] == vReject || c.Verdicts[ch+"/sender"] == vReject) {
			mailRejected = true
		}
	}
	if mailRejected != (obs.mailErr != nil) {
		if mailRejected {
			return fail("reject-not-enforced:mail", "a global/source check rejects at connection or sender stage but MAIL was accepted")
		}
		return fail("refused-without-reject:mail", "MAIL refused: %v", obs.mailErr)
	}
	noTargetCalls := func() bool {
		for _, t := range w.tgt {
			if t.started > 0 {
				return false
			}
		}
		return true
	}
	if mailRejected {
		if !noTargetCalls() {
			return fail("delivered-despite-reject:mail", "targets were started although MAIL was refused")
		}
		return "", ""
	}
	for ch := range scope {
		if inScope(ch, "G") || inScope(ch, "S") {
			if !sawOnce(ch, "conn", "") || !sawOnce(ch, "sender", c.Placement.sender()) {
				return fail("stage-not-seen:mail", "check %s did not see the connection/sender although MAIL was accepted", ch)
			}
		}
	}
	// (3) RCPT
	var acceptedRcpts []string
	for _, r := range c.Rcpts {
		blk := c06RcptBlock(r)
		want := false
		for ch := range scope {
			app := inScope(ch, "G") || inScope(ch, "S") || inScope(ch, blk)
			if !app {
				continue
			}
			if c.Verdicts[ch+"/rcpt"] == vReject {
				want = true
			}
			if inScope(ch, blk) && !inScope(ch, "G") && !inScope(ch, "S") && (c.Verdicts[ch+"/conn"] == vReject || c.Verdicts[ch+"/sender"] == vReject) {
				want = true
			}
		}
		got := obs.rcptErr[r] != nil
		if want != got {
			if want {
				return fail("reject-not-enforced:rcpt", "an applicable check rejects recipient %s but RCPT was accepted", r)
			}
			return fail("refused-without-reject:rcpt", "RCPT %s refused: %v", r, obs.rcptErr[r])
		}
		if got {
			for tn, t := range w.tgt {
				for _, x := range t.rcpts {
					if x == r {
						return fail("delivered-despite-reject:rcpt", "refused recipient %s was handed to target %s", r, tn)
					}
				}
			}
			continue
		}
		acceptedRcpts = append(acceptedRcpts, r)
		for ch := range scope {
			if inScope(ch, "G") || inScope(ch, "S") || inScope(ch, blk) {
				if !sawOnce(ch, "rcpt", r) {
					return fail("stage-not-seen:rcpt", "check %s did not see accepted recipient %s", ch, r)
				}
				if !sawOnce(ch, "conn", "") || !sawOnce(ch, "sender", c.Placement.sender()) {
					return fail("stage-not-seen:replay", "check %s (first met at recipient %s) was not shown the connection/sender", ch, r)
				}
			}
		}
	}
	if len(acceptedRcpts) == 0 {
		for _, t := range w.tgt {
			if t.committed > 0 {
				return fail("delivered-despite-reject:rcpt", "a target committed although no recipient was accepted")
			}
		}
		return "", ""
	}
	// (4) body
	activeBlocks := map[string]bool{}
	for _, r := range acceptedRcpts {
		activeBlocks[c06RcptBlock(r)] = true
	}
	applicable := func(ch string) bool {
		if inScope(ch, "G") || inScope(ch, "S") {
			return true
		}
		for b := range activeBlocks {
			if inScope(ch, b) {
				return true
			}
		}
		return false
	}
	bodyRejected := false
	for ch := range scope {
		if applicable(ch) && c.Verdicts[ch+"/body"] == vReject {
			bodyRejected = true
		}
	}
	dmarcReject := c.Placement.DMARC == "reject"
	wantRefused := bodyRejected || dmarcReject
	gotRefused := obs.bodyErr != nil
	if wantRefused != gotRefused {
		if wantRefused {
			return fail("reject-not-enforced:body:"+path, "a body-stage reject (check or DMARC policy) applies but the message was accepted")
		}
		return fail("refused-without-reject:body:"+path, "message refused at body stage: %v %v", obs.bodyErr, obs.statuses)
	}
	if gotRefused {
		for tn, t := range w.tgt {
			if t.committed > 0 {
				return fail("delivered-despite-reject:body:"+path, "target %s committed a refused message", tn)
			}
			if t.started > 0 && t.aborted != 1 {
				return fail("not-aborted:"+path, "target %s: started %d aborted %d", tn, t.started, t.aborted)
			}
		}
		_ = rejectAt
		return "", ""
	}
	for ch := range scope {
		if applicable(ch) && !sawOnce(ch, "body", "") {
			return fail("stage-not-seen:body:"+path, "check %s did not see the body of the accepted message", ch)
		}
	}
	// (5) quarantine
	must, may := false, false
	for _, x := range w.calls {
		if x.verdict != vQuarantine {
			continue
		}
		may = true
		switch x.stage {
		case "conn", "sender":
			must = true // MAIL was accepted (or the RCPT that instantiated the check: see below)
			if !inScope(x.check, "G") && !inScope(x.check, "S") {
				// destination-block check: its replayed verdict belongs to the RCPT that first met it
				must = false
				for _, r := range acceptedRcpts {
					if inScope(x.check, c06RcptBlock(r)) {
						must = true
					}
				}
			}
		case "rcpt":
			for _, r := range acceptedRcpts {
				if r == x.item {
					must = true
				}
			}
		case "body":
			must = true
		}
	}
	if c.Placement.DMARC == "quarantine" {
		must, may = true, true
	}
	for tn, t := range w.tgt {
		if t.started == 0 {
			continue
		}
		if len(t.afterClose) > 0 {
			return fail("use-after-close:"+path, "target %s: %v after close", tn, t.afterClose)
		}
		if t.bodySeen != 1 || t.committed != 1 || t.aborted != 0 {
			return fail("target-not-committed:"+path, "target %s: body %d committed %d aborted %d", tn, t.bodySeen, t.committed, t.aborted)
		}
		q := t.quarantineAtBody[0]
		if must && !q {
			return fail("quarantine-not-flagged:"+path, "a check (or the DMARC policy) quarantines but target %s saw the message without the quarantine flag", tn)
		}
		if q && !may {
			return fail("flagged-without-quarantine:"+path, "target %s saw the quarantine flag although nothing quarantined", tn)
		}
	}
	return "", ""
}

func TestVerifC06(t *testing.T) {
	r := vx.Start("C06", "checks")
	defer r.Finish()
	c06Register()
	r.Rule("placements of 1-3 scripted checks over global / source / two destination blocks (including the same check referenced in two places, and a named group of three checks referenced in two blocks next to each block's own check) x verdict assignments per stage (none, ignore-with-reason, quarantine, reject; at most V non-none) x envelopes of 1-2 recipients routed to different blocks, with an ordinary and with the null envelope sender, x atomic and per-recipient body paths (+ DMARC quarantine/reject policy), each on a real pipeline built by msgpipeline.New; check_runner.go/msgpipeline.go scheduler-rewritten: every completion order of the parallel check goroutines and every map iteration order, up to F deviations from the default order; oracle: verdict fold (reject refuses the command, nothing delivered; quarantine flags every target at body time; ignore changes nothing) and call log (each state sees conn/sender/recipient/body at most once, and at least once for every accepted command in scope). Non-trivial: distinct schedules with a non-default order")
	r.Assume("a quarantine verdict delivered in the same batch as a reject, or for a refused command, may or may not flag the message (the statement does not decide)")
	V, F := 2, 3
	if vx.Thorough() {
		V, F = 3, 4
	}
	placements := []c06Placement{
		{Name: "G1", G: []string{"k1"}},
		{Name: "G2", G: []string{"k1", "k2"}},
		{Name: "G1-A1", G: []string{"k1"}, A: []string{"k2"}},
		{Name: "A1-B1", A: []string{"k1"}, B: []string{"k2"}},
		{Name: "G1-A1same", G: []string{"k1"}, A: []string{"k1"}},
		{Name: "S1-A1", S: []string{"k1"}, A: []string{"k2"}},
		{Name: "A1-B1same", A: []string{"k1"}, B: []string{"k1"}},
		{Name: "A2", A: []string{"k1", "k2"}},
	}
	if vx.Thorough() {
		placements = append(placements, c06Placement{Name: "G2-A1", G: []string{"k1", "k2"}, A: []string{"k3"}}, c06Placement{Name: "G1-S1-B1", G: []string{"k1"}, S: []string{"k2"}, B: []string{"k3"}})
	}
	// the same placements for a message with the null reverse-path (bounces go through default_source)
	for _, p := range append([]c06Placement{}, placements...) {
		if !vx.Thorough() && !(p.Name == "G1" || p.Name == "S1-A1" || p.Name == "A1-B1" || p.Name == "G1-A1same") {
			continue
		}
		p.Name += "-nullsender"
		p.NullSender = true
		placements = append(placements, p)
	}
	envs := [][]string{{"ra@a.example"}, {"ra@a.example", "rb@b.example"}, {"rb@b.example", "ra@a.example"}, {"ra@a.example", "ra@a.example"}}
	if vx.Thorough() {
		envs = append(envs, []string{"ra@a.example", "ra2@a.example", "rb@b.example"})
	}
	stages := []string{"conn", "sender", "rcpt", "body"}
	var scs []vx.ScheduleScenario
	for _, p := range placements {
		var checks []string
		for ch := range p.scopes() {
			checks = append(checks, ch)
		}
		sort.Strings(checks)
		var slots []string
		for _, ch := range checks {
			for _, st := range stages {
				slots = append(slots, ch+"/"+st)
			}
		}
		var assigns []map[string]int
		var rec func(start int, cur map[string]int, left int)
		rec = func(start int, cur map[string]int, left int) {
			cp := map[string]int{}
			for k, v := range cur {
				cp[k] = v
			}
			assigns = append(assigns, cp)
			if left == 0 {
				return
			}
			for i := start; i < len(slots); i++ {
				for v := vIgnore; v <= vReject; v++ {
					cur[slots[i]] = v
					rec(i+1, cur, left-1)
					delete(cur, slots[i])
				}
			}
		}
		rec(0, map[string]int{}, V)
		for ai, a := range assigns {
			for ei, env := range envs {
				// the full product is kept for single-deviation assignments; pairs are spread over the envelopes
				nz := len(a)
				if nz >= 3 && (ai+ei)%len(envs) != 0 {
					continue
				}
				for _, na := range []bool{false, true} {
					scs = append(scs, c06Scenario(c06Case{Placement: p, Verdicts: a, Rcpts: env, NonAtomic: na}, F))
				}
			}
		}
	}
	// a named group of three checks referenced in two blocks, each followed by the block's own check
	// (single verdicts, one deviation from the default completion order)
	for _, p := range []c06Placement{
		{Name: "grp-A+k4-B+k5", GroupIn: []string{"A", "B"}, A: []string{"k4"}, B: []string{"k5"}},
		{Name: "grp-G+k4-A+k5", GroupIn: []string{"G", "A"}, G: []string{"k4"}, A: []string{"k5"}},
		{Name: "grp-S+k4-B+k5", GroupIn: []string{"S", "B"}, S: []string{"k4"}, B: []string{"k5"}},
	} {
		var checks []string
		for ch := range p.scopes() {
			checks = append(checks, ch)
		}
		sort.Strings(checks)
		assigns := []map[string]int{{}}
		for _, ch := range checks {
			for _, st := range stages {
				for v := vIgnore; v <= vReject; v++ {
					assigns = append(assigns, map[string]int{ch + "/" + st: v})
				}
			}
		}
		for _, a := range assigns {
			for _, env := range envs[:2] {
				for _, na := range []bool{false, true} {
					scs = append(scs, c06Scenario(c06Case{Placement: p, Verdicts: a, Rcpts: env, NonAtomic: na}, 1))
				}
			}
		}
	}
	// DMARC policy action on both body paths
	for _, pol := range []string{"quarantine", "reject"} {
		for _, na := range []bool{false, true} {
			for _, p := range []c06Placement{{Name: "G1-dmarc-" + pol, G: []string{"k1"}, DMARC: pol}, {Name: "A1-dmarc-" + pol, A: []string{"k1"}, DMARC: pol}} {
				scs = append(scs, c06Scenario(c06Case{Placement: p, Verdicts: map[string]int{}, Rcpts: []string{"ra@a.example", "rb@b.example"}, NonAtomic: na}, F))
			}
		}
	}
	r.Bound("scenarios", len(scs))
	r.Bound("max_non_none_verdicts", V)
	r.Bound("free_choice_deviations", F)
	// scenarios are distributed over the shards (each explored completely by one shard)
	var mine []vx.ScheduleScenario
	for i, s := range scs {
		if r.Mine(i) {
			mine = append(mine, s)
		}
	}
	r.ExploreScenarioList(mine)
}
