package msgpipeline

// C06 (part "remote") — "if any check ... quarantines, ... the remote target
// refuses it": a real pipeline (msgpipeline.New from configuration nodes) with
// a scripted check that quarantines at one stage, in front of the REAL remote
// target and a scripted MX. Every stage x check placement x body path.
// Free-running on the real (not rewritten) pipeline code.

import (
	"bufio"
	"context"
	"encoding/json"
	"fmt"
	"net"
	"strings"
	"sync"
	"testing"

	"github.com/emersion/go-message/textproto"
	"github.com/emersion/go-smtp"
	"github.com/foxcpp/go-mockdns"
	"github.com/foxcpp/maddy/framework/buffer"
	"github.com/foxcpp/maddy/framework/config"
	"github.com/foxcpp/maddy/framework/exterrors"
	"github.com/foxcpp/maddy/framework/module"
	"github.com/foxcpp/maddy/internal/target/remote"
	"github.com/foxcpp/maddy/internal/verif/peers"
	"github.com/foxcpp/maddy/internal/verif/vx"
)

type c06rCase struct {
	Stage     string `json:"quarantine_at"` // conn | sender | rcpt | body | none
	Place     string `json:"check_placement"` // global | source | destination
	NonAtomic bool   `json:"per_recipient_body_path"`
}

type c06rCheck struct {
	mu    sync.Mutex
	stage string
}

func (c *c06rCheck) Name() string           { return "verif_check" }
func (c *c06rCheck) InstanceName() string   { return "kq" }
func (c *c06rCheck) Init(*config.Map) error { return nil }
func (c *c06rCheck) CheckStateForMsg(ctx context.Context, m *module.MsgMetadata) (module.CheckState, error) {
	return c06rState{c}, nil
}

type c06rState struct{ c *c06rCheck }

func (s c06rState) res(stage string) module.CheckResult {
	s.c.mu.Lock()
	defer s.c.mu.Unlock()
	if s.c.stage == stage {
		return module.CheckResult{Quarantine: true, Reason: &exterrors.SMTPError{Code: 550, EnhancedCode: exterrors.EnhancedCode{5, 7, 1}, Message: "scripted quarantine at " + stage, CheckName: "kq"}}
	}
	return module.CheckResult{}
}
func (s c06rState) CheckConnection(ctx context.Context) module.CheckResult     { return s.res("conn") }
func (s c06rState) CheckSender(ctx context.Context, f string) module.CheckResult { return s.res("sender") }
func (s c06rState) CheckRcpt(ctx context.Context, t string) module.CheckResult   { return s.res("rcpt") }
func (s c06rState) CheckBody(ctx context.Context, h textproto.Header, b buffer.Buffer) module.CheckResult {
	return s.res("body")
}
func (s c06rState) Close() error { return nil }

var (
	c06rChk   = &c06rCheck{}
	c06rOnce  sync.Once
	c06rWorld *peers.World
	c06rPKI   = peers.NewPKI()
)

type c06rStatus struct {
	mu   sync.Mutex
	errs map[string]error
}

func (s *c06rStatus) SetStatus(r string, err error) {
	s.mu.Lock()
	s.errs[r] = err
	s.mu.Unlock()
}

func c06rRun(c c06rCase) (fp, detail, outcome string) {
	c06rOnce.Do(func() {
		module.RegisterInstance(c06rChk, nil)
		c06rWorld = peers.NewWorld(c06rPKI)
		c06rWorld.Add(peers.Script{Host: "mx.dest.example", SMTPUTF8: true})
		zones := map[string]mockdns.Zone{
			"dest.example.":    {MX: []net.MX{{Host: "mx.dest.example.", Pref: 10}}},
			"mx.dest.example.": {A: []string{"127.0.0.1"}},
		}
		rt := remote.VerifNewTarget(c06rWorld.Dial, zones, c06rPKI.Pool)
		module.RegisterInstance(rt, nil)
		module.Initialized[rt.InstanceName()] = true // built by the accessor, not by Init
	})
	c06rChk.mu.Lock()
	c06rChk.stage = c.Stage
	c06rChk.mu.Unlock()
	c06rWorld.Forget()
	chk := config.Node{Name: "check", Children: []config.Node{{Name: "&kq"}}}
	dest := []config.Node{{Name: "deliver_to", Args: []string{"&remote"}}}
	src := []config.Node{}
	var nodes []config.Node
	switch c.Place {
	case "global":
		nodes = append(nodes, chk)
	case "source":
		src = append(src, chk)
	case "destination":
		dest = append([]config.Node{chk}, dest...)
	}
	src = append(src, config.Node{Name: "destination", Args: []string{"dest.example"}, Children: dest}, config.Node{Name: "default_destination", Children: []config.Node{{Name: "reject"}}})
	nodes = append(nodes, config.Node{Name: "source", Args: []string{"sender.example"}, Children: src}, config.Node{Name: "default_source", Children: []config.Node{{Name: "reject"}}})
	p, err := New(map[string]interface{}{}, nodes)
	if err != nil {
		return "HARNESS:pipeline", err.Error(), ""
	}
	p.Hostname = "mx.verif.example"
	ctx := context.Background()
	meta := &module.MsgMetadata{ID: "c06r", OriginalFrom: "s@sender.example"}
	d, err := p.Start(ctx, meta, "s@sender.example")
	if err != nil {
		return "HARNESS:start", err.Error(), ""
	}
	rcpts := []string{"a@dest.example", "b@dest.example"}
	accepted := 0
	for _, r := range rcpts {
		if err := d.AddRcpt(ctx, r, smtp.RcptOptions{}); err == nil {
			accepted++
		}
	}
	refused := accepted == 0
	if accepted > 0 {
		hdr, _ := textproto.ReadHeader(bufio.NewReader(strings.NewReader("From: <s@sender.example>\r\nSubject: x\r\n\r\n")))
		body := buffer.MemoryBuffer{Slice: []byte("hi\r\n")}
		if c.NonAtomic {
			st := &c06rStatus{errs: map[string]error{}}
			d.(module.PartialDelivery).BodyNonAtomic(ctx, st, hdr, body)
			failed := 0
			for _, e := range st.errs {
				if e != nil {
					failed++
				}
			}
			if failed >= accepted {
				refused = true
				d.Abort(ctx)
			} else {
				d.Commit(ctx)
			}
		} else {
			if err := d.Body(ctx, hdr, body); err != nil {
				refused = true
				d.Abort(ctx)
			} else {
				d.Commit(ctx)
			}
		}
	} else {
		d.Abort(ctx)
	}
	got := 0
	for _, t := range c06rWorld.Txns() {
		if t.Data != nil {
			got++
		}
	}
	if c.Stage == "none" {
		if got != 1 || refused {
			return "HARNESS:baseline", fmt.Sprintf("without a quarantine verdict the MX received %d message(s), refused=%v", got, refused), ""
		}
		return "", "", "no verdict: relayed"
	}
	if got > 0 {
		return "C06:remote:quarantined-message-relayed", fmt.Sprintf("check placed in the %s block quarantines at the %s stage; the remote target transmitted the message to the MX (%d transaction(s) with content)", c.Place, c.Stage, got), ""
	}
	if !refused {
		return "C06:remote:quarantined-message-not-refused", fmt.Sprintf("quarantine at %s (%s block): nothing reached the MX but the sender was told the message is accepted", c.Stage, c.Place), ""
	}
	return "", "", "quarantined: refused by the remote target"
}

func TestVerifC06Remote(t *testing.T) {
	r := vx.Start("C06", "remote")
	defer r.Finish()
	r.Rule("a real pipeline (msgpipeline.New) with a scripted check placed in the global / source / destination block that quarantines at the connection / sender / recipient / body stage (or never), in front of the real remote target and a scripted MX, on the atomic and the per-recipient body path; oracle: with a quarantine verdict no message content reaches the MX and the message is refused; without one it is relayed once. Non-trivial: all cases")
	if rp := r.Replay(); rp != nil {
		var c c06rCase
		if json.Unmarshal(rp, &c) != nil || c.Place == "" {
			return
		}
		fp, detail, _ := c06rRun(c)
		r.Eval()
		if strings.HasPrefix(fp, "HARNESS:") {
			r.HarnessError(fp + " " + detail)
		} else if fp != "" {
			r.Violation(fp, detail, c)
		}
		return
	}
	if r.Replaying() {
		return
	}
	for _, place := range []string{"global", "source", "destination"} {
		for _, stage := range []string{"none", "conn", "sender", "rcpt", "body"} {
			for _, na := range []bool{false, true} {
				c := c06rCase{Stage: stage, Place: place, NonAtomic: na}
				fp, detail, oc := c06rRun(c)
				r.Eval()
				r.Nontrivial(vx.JSON(c))
				if strings.HasPrefix(fp, "HARNESS:") {
					r.HarnessError(fp + " " + detail + " " + vx.JSON(c))
					return
				}
				if fp != "" {
					r.Violation(fp, detail+"\ncase: "+vx.JSON(c), c)
					continue
				}
				r.Outcome(oc)
				r.Sample(c)
			}
		}
	}
}
