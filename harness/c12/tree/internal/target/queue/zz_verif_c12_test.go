package queue

// C12 — scheduler dispatches once, not early; shutdown is safe in every
// interleaving. timewheel.go (and queue.go) are compiled from scheduler-
// rewritten copies; every schedule up to a pre-emption bound is explored.

import (
	"fmt"
	"sort"
	"strings"
	"testing"
	"time"

	"github.com/foxcpp/maddy/internal/verif/vsched"
	"github.com/foxcpp/maddy/internal/verif/vx"
)

type c12Disp struct {
	val string
	at  time.Time
	due time.Time
}

func c12PanicSite(o *vsched.Outcome) string {
	if len(o.Panics) == 0 {
		return ""
	}
	return vx.PanicSite(o.Panics[0])
}

// wheel scenario: k producers add entries; optionally one Close.
func c12Wheel(name string, offsets []time.Duration, withClose bool, bound int) vx.ScheduleScenario {
	return vx.ScheduleScenario{Name: name, Bound: bound, Make: func() vsched.Scenario {
		var disp []c12Disp
		closeReturned := false
		addsReturned := 0
		return vsched.Scenario{
			Root: func() {
				var got vsched.WaitGroup
				tw := NewTimeWheel(func(s TimeSlot) {
					disp = append(disp, c12Disp{val: s.Value.(string), at: vsched.Now(), due: s.Time})
					if !withClose {
						got.Done()
					}
				})
				var prod vsched.WaitGroup
				for i, off := range offsets {
					i, off := i, off
					prod.Add(1)
					if !withClose {
						got.Add(1)
					}
					vsched.GoNamed(fmt.Sprintf("producer%d", i), func() {
						tw.Add(vsched.Epoch.Add(off), fmt.Sprintf("e%d", i))
						addsReturned++
						prod.Done()
					})
				}
				if withClose {
					prod.Add(1)
					vsched.GoNamed("closer", func() {
						tw.Close()
						closeReturned = true
						prod.Done()
					})
				}
				prod.Wait()
				got.Wait()
			},
			Check: func(o *vsched.Outcome) (string, string) {
				if len(o.Panics) > 0 {
					return "C12:" + strings.SplitN(name, "-", 2)[0] + ":panic:" + c12PanicSite(o), o.Panics[0]
				}
				if o.Deadlock {
					sort.Strings(o.Blocked)
					return "C12:" + strings.SplitN(name, "-", 2)[0] + ":deadlock", "blocked: " + strings.Join(o.Blocked, "; ")
				}
				if o.StepCap {
					return "C12:" + strings.SplitN(name, "-", 2)[0] + ":livelock", "step cap reached"
				}
				seen := map[string]int{}
				for _, d := range disp {
					seen[d.val]++
					if d.at.Before(d.due) {
						return "C12:wheel:dispatched-early", fmt.Sprintf("%s due %s dispatched at %s", d.val, d.due.Sub(vsched.Epoch), d.at.Sub(vsched.Epoch))
					}
				}
				for v, n := range seen {
					if n > 1 {
						return "C12:wheel:dispatched-twice", fmt.Sprintf("%s dispatched %d times", v, n)
					}
				}
				if !withClose {
					if len(seen) != len(offsets) {
						return "C12:wheel:not-dispatched", fmt.Sprintf("%d of %d entries dispatched", len(seen), len(offsets))
					}
				} else if !closeReturned {
					return "C12:wheel:close-did-not-return", ""
				}
				return "", ""
			},
		}
	}}
}

func TestVerifC12(t *testing.T) {
	r := vx.Start("C12", "wheel")
	defer r.Finish()
	r.Rule("every interleaving (at the granularity of lock, channel, select, atomic, goroutine-start and timer-expiry operations of the scheduler-rewritten timewheel.go) of k producers (+ one Close) up to the pre-emption bound; oracle: each entry dispatched exactly once (at most once with Close), never before its time on the virtual clock, no panic, no deadlock, Close returns. Non-trivial: distinct schedules with at least one pre-emption or two context switches")
	r.Assume("sequentially consistent atomics; release operations (Unlock, Done) are not scheduling points (Lipton reduction, valid for data-race-free code)")
	b := 2
	if vx.Thorough() {
		b = 3
	}
	s := time.Second
	scs := []vx.ScheduleScenario{
		c12Wheel("wheel-add1", []time.Duration{5 * s}, false, b),
		c12Wheel("wheel-add2-distinct", []time.Duration{5 * s, 2 * s}, false, b),
		c12Wheel("wheel-add2-equal", []time.Duration{3 * s, 3 * s}, false, b),
		c12Wheel("wheel-add2-past", []time.Duration{-1 * s, 0}, false, b),
		c12Wheel("wheel-add3", []time.Duration{5 * s, 2 * s, 9 * s}, false, b),
		c12Wheel("wheelclose-add1", []time.Duration{5 * s}, true, b),
		c12Wheel("wheelclose-add2", []time.Duration{5 * s, 0}, true, b),
	}
	if vx.Thorough() {
		scs = append(scs, c12Wheel("wheel-add4", []time.Duration{5 * s, 2 * s, 9 * s, 2 * s}, false, 2),
			c12Wheel("wheelclose-add3", []time.Duration{5 * s, 0, 1 * s}, true, 2))
	}
	if vx.Thorough() {
		// the pre-emption bound 3 space of the 3-4 thread scenarios does not close in an
		// hour: every scenario gets an execution budget per shard; a scenario that
		// exhausts it is reported as capped (bound completed = 2) instead of running on
		for i := range scs {
			scs[i].MaxExecs = 1500000
		}
	}
	r.ExploreSchedules(scs)
}
