package queue

// C12, queue level: shutdown racing enqueues, retries and in-flight attempts
// on the real queue (queue.go + timewheel.go scheduler-rewritten), all
// interleavings up to the pre-emption bound.

import (
	"fmt"
	"os"
	"path/filepath"
	"sort"
	"strings"
	"testing"

	"github.com/foxcpp/maddy/internal/verif/vsched"
	"github.com/foxcpp/maddy/internal/verif/vx"
)

type c12qParams struct {
	name        string
	msgs        []qhMsg // submitted by the root before the race starts
	late        []qhMsg // submitted by their own thread, racing with Close
	script      map[string]int
	parallelism int
	bound       int
	noClose     bool
	partial     bool // the target reports per-recipient statuses
}

var c12qSeq int

func c12qScenario(scratch string, p c12qParams) vx.ScheduleScenario {
	return vx.ScheduleScenario{Name: p.name, Bound: p.bound, Opt: vsched.Options{MaxSteps: 4000, KeepEnv: true}, Make: func() vsched.Scenario {
		c12qSeq++
		dir := filepath.Join(scratch, fmt.Sprintf("q%d", c12qSeq))
		os.MkdirAll(dir, 0o755)
		tgt := &qhTarget{name: "target", partial: p.partial, decide: func(d *qhDeliv, stage, rcpt string) int {
			if c, ok := p.script[fmt.Sprintf("%s/%d/%s/%s", d.MsgID, d.Attempt, stage, rcpt)]; ok {
				return c
			}
			if c, ok := p.script[fmt.Sprintf("%s/%d/%s", d.MsgID, d.Attempt, stage)]; ok {
				return c
			}
			return qhOK
		}}
		bounce := &qhTarget{name: "bounce"}
		acked := map[string]bool{}
		closeReturned := false
		// shutdown has terminated when Close returns: a delivery attempt still touching
		// the target afterwards means it has not
		var afterClose []string
		tgt.onEvent = func(ev string) {
			if closeReturned {
				afterClose = append(afterClose, ev)
			}
		}
		var initErr error
		return vsched.Scenario{
			Root: func() {
				q, err := qhNewQueue(qhQueueOpts{dir: dir, target: tgt, bounce: bounce, maxTries: 3, parallelism: p.parallelism})
				if err != nil {
					initErr = err
					return
				}
				for _, m := range p.msgs {
					if _, err := qhSubmit(q, m); err == nil {
						acked[m.ID] = true
					}
				}
				var wg vsched.WaitGroup
				for _, m := range p.late {
					m := m
					wg.Add(1)
					vsched.GoNamed("submit-"+m.ID, func() {
						if _, err := qhSubmit(q, m); err == nil {
							acked[m.ID] = true
						}
						wg.Done()
					})
				}
				if !p.noClose {
					wg.Add(1)
					vsched.GoNamed("closer", func() {
						q.Close()
						closeReturned = true
						wg.Done()
					})
				}
				wg.Wait()
			},
			Check: func(o *vsched.Outcome) (fp, detail string) {
				defer os.RemoveAll(dir)
				if initErr != nil {
					return "HARNESS:queue-init", initErr.Error()
				}
				if len(o.Panics) > 0 {
					return "C12:queue:panic:" + vx.PanicSite(o.Panics[0]), o.Panics[0]
				}
				if o.Deadlock {
					sort.Strings(o.Blocked)
					return "C12:queue:deadlock", strings.Join(o.Blocked, "; ")
				}
				if o.StepCap {
					return "C12:queue:livelock", "step cap"
				}
				if !p.noClose && !closeReturned {
					return "C12:queue:close-did-not-return", ""
				}
				if len(tgt.viol) > 0 {
					return "C12:queue:typestate", strings.Join(tgt.viol, "; ")
				}
				if len(afterClose) > 0 {
					return "C12:queue:attempt-running-after-close-returned", fmt.Sprintf("Close had returned and the target still saw: %v", afterClose)
				}
				// ledger of this run
				delivered := map[string]int{}
				for _, d := range tgt.dels {
					for _, r := range d.DeliveredRcpts() {
						delivered[r]++
						if delivered[r] > 1 {
							return "C12:queue:delivered-twice", fmt.Sprintf("%s committed %d times in one run", r, delivered[r])
						}
					}
				}
				bounced := map[string]bool{}
				for _, d := range bounce.dels {
					for _, r := range qhNamed(d.Body) {
						bounced[r] = true
					}
				}
				files := qhSpoolFiles(dir)
				for _, f := range files {
					if strings.HasSuffix(f, ".meta_broken") {
						return "C12:queue:meta-marked-broken", fmt.Sprintf("spool after shutdown: %v", files)
					}
				}
				has := func(n string) bool {
					for _, f := range files {
						if f == n {
							return true
						}
					}
					return false
				}
				var owed []string
				for _, m := range append(append([]qhMsg{}, p.msgs...), p.late...) {
					if !acked[m.ID] {
						continue
					}
					open := false
					for _, r := range m.Rcpts {
						if delivered[r] == 0 && !bounced[r] {
							open = true
							owed = append(owed, r)
						}
					}
					if open && !(has(m.ID+".meta") && has(m.ID+".header") && has(m.ID+".body")) {
						return "C12:queue:message-removed-without-outcome", fmt.Sprintf("message %s still owes %v but its spool files are %v", m.ID, owed, files)
					}
				}
				if p.noClose {
					if len(owed) > 0 {
						return "C12:queue:not-dispatched", fmt.Sprintf("queue went quiet with %v undelivered", owed)
					}
					return "", ""
				}
				// a restart picks up what is owed
				rt := &qhTarget{name: "target"}
				rb := &qhTarget{name: "bounce"}
				ro := qhRunAt(o.EndedAt+3600e9, func() {
					qhNewQueue(qhQueueOpts{dir: dir, target: rt, bounce: rb, maxTries: 4})
				})
				if len(ro.Panics) > 0 || ro.Deadlock || ro.StepCap {
					return "C12:queue:restart-fails", fmt.Sprintf("%v %v", ro.Panics, ro.Blocked)
				}
				got := map[string]bool{}
				for _, d := range rt.dels {
					for _, r := range d.DeliveredRcpts() {
						got[r] = true
					}
				}
				for _, r := range owed {
					if !got[r] {
						return "C12:queue:restart-does-not-deliver", fmt.Sprintf("%s is owed after shutdown but a restarted queue does not deliver it (spool was %v)", r, files)
					}
				}
				return "", ""
			},
		}
	}}
}

func TestVerifC12Queue(t *testing.T) {
	r := vx.Start("C12", "queue")
	defer r.Finish()
	scratch := os.Getenv("VERIF_SCRATCH")
	if scratch == "" {
		scratch = os.TempDir()
	}
	scratch = filepath.Join(scratch, fmt.Sprintf("c12q-%d", r.Shard))
	os.MkdirAll(scratch, 0o755)
	defer os.RemoveAll(scratch)
	r.Rule("every interleaving (lock, channel, select, atomic, WaitGroup, goroutine start, timer expiry of the scheduler-rewritten queue.go and timewheel.go, real spool on tmpfs) of a real queue with 1-2 accepted messages, scripted temporary failures (retry scheduling), 0-1 late enqueue and one Close up to the pre-emption bound; oracle: no panic escapes, no deadlock, Close returns and no delivery attempt touches the target after it returned, no recipient committed twice, afterwards every message that still owes a recipient has intact .meta/.header/.body (never .meta_broken) and a restarted queue delivers it. Non-trivial: distinct schedules with a pre-emption or >1 context switch")
	b := 2
	m1 := qhSimpleMsg("m1", "s@example.com", "a1@example.org")
	m2 := qhSimpleMsg("m2", "s@example.com", "a2@example.org")
	m1two := qhSimpleMsg("m1", "s@example.com", "a1@example.org", "b1@example.org")
	scs := []vx.ScheduleScenario{
		c12qScenario(scratch, c12qParams{name: "Q0-deliver-noclose", msgs: []qhMsg{m1two}, script: map[string]int{"m1/1/body": qhT}, parallelism: 1, bound: b, noClose: true}),
		c12qScenario(scratch, c12qParams{name: "Q1-retry-vs-close", msgs: []qhMsg{m1}, script: map[string]int{"m1/1/body": qhT}, parallelism: 1, bound: b}),
		c12qScenario(scratch, c12qParams{name: "Q2-commit-vs-close", msgs: []qhMsg{m1}, late: []qhMsg{m2}, parallelism: 1, bound: b}),
		// one recipient delivered, the other retried, two attempts may run at once: the retry
		// re-reads the recipient list from disk, so it must not start before the list is there
		c12qScenario(scratch, c12qParams{name: "Q5-partial-retry-p2", msgs: []qhMsg{m1two}, script: map[string]int{"m1/1/status/b1@example.org": qhT}, partial: true, parallelism: 2, bound: 2, noClose: true}),
		c12qScenario(scratch, c12qParams{name: "Q3-two-inflight-p1", msgs: []qhMsg{m1, m2}, script: map[string]int{"m2/1/start": qhT}, parallelism: 1, bound: b}),
	}
	if vx.Thorough() {
		scs = append(scs,
			c12qScenario(scratch, c12qParams{name: "Q3-two-inflight-p2", msgs: []qhMsg{m1, m2}, script: map[string]int{"m2/1/start": qhT, "m1/1/commit": qhU}, parallelism: 2, bound: 2}),
			c12qScenario(scratch, c12qParams{name: "Q4-two-late-noclose", late: []qhMsg{m1, m2}, script: map[string]int{"m1/1/body": qhT}, parallelism: 2, bound: 2, noClose: true}),
		)
	}
	r.ExploreSchedules(scs)
}
