package queue

// C12 (part "race") — real timewheel.go with real goroutines under the race
// detector (sampling; supports the data-race-freedom assumption of the
// schedule exploration, which runs the code under a cooperative scheduler).

import (
	"fmt"
	"sync"
	"sync/atomic"
	"testing"
	"time"

	"github.com/foxcpp/maddy/internal/verif/vx"
)

func TestVerifC12Race(t *testing.T) {
	r := vx.Start("C12", "race")
	defer r.Finish()
	r.Rule("free-running runs of the real timewheel.go under the Go race detector: 3 producers x 4 Add (due now / in 1 ms / in 3 ms) concurrent with dispatch and with one Close, 200 iterations per shard; monitors: every entry added before Close was invoked and due is dispatched at most once and not before its time (sampling)")
	if r.Replaying() {
		return
	}
	iters := 200
	for it := 0; it < iters; it++ {
		var mu sync.Mutex
		seen := map[string]int{}
		var early atomic.Value
		tw := NewTimeWheel(func(s TimeSlot) {
			if time.Now().Before(s.Time) {
				early.Store(fmt.Sprintf("%v dispatched %s early", s.Value, s.Time.Sub(time.Now())))
			}
			mu.Lock()
			seen[s.Value.(string)]++
			mu.Unlock()
		})
		var wg sync.WaitGroup
		for p := 0; p < 3; p++ {
			p := p
			wg.Add(1)
			go func() {
				defer wg.Done()
				for i := 0; i < 4; i++ {
					d := []time.Duration{0, time.Millisecond, 3 * time.Millisecond}[(p+i)%3]
					tw.Add(time.Now().Add(d), fmt.Sprintf("p%d-%d", p, i))
				}
			}()
		}
		wg.Add(1)
		go func() {
			defer wg.Done()
			if it%2 == 0 {
				time.Sleep(time.Duration(it%5) * 500 * time.Microsecond)
			}
			tw.Close()
		}()
		wg.Wait()
		r.Eval()
		mu.Lock()
		for k, n := range seen {
			if n > 1 {
				mu.Unlock()
				r.Violation("C12:race:dispatched-twice", fmt.Sprintf("%s dispatched %d times", k, n), map[string]any{"iteration": it})
				return
			}
		}
		mu.Unlock()
		if e := early.Load(); e != nil {
			r.Violation("C12:race:dispatched-early", e.(string), map[string]any{"iteration": it})
			return
		}
	}
	r.Outcome("no-race-reported")
	r.Count("race_sampling_iterations", int64(iters))
	r.Assume("part race is sampling (free-running OS schedules under the race detector); it supports the data-race-freedom assumption of the exploration and is not counted as exhaustive coverage")
}
