package dns

import (
	"net"
	"time"

	"github.com/miekg/dns"
)

// VerifExtResolverServers builds an ExtResolver with the given list of servers
// (tried in order; the production constructor reads /etc/resolv.conf).
func VerifExtResolverServers(hosts []string, port string) *ExtResolver {
	cl := new(dns.Client)
	cl.Dialer = &net.Dialer{Timeout: 2 * time.Second}
	return &ExtResolver{cl: cl, Cfg: &dns.ClientConfig{Servers: hosts, Port: port, Ndots: 1, Timeout: 2, Attempts: 1}}
}
