package remote

// C13 (part "discovery") — the records that verifyDANE judges come from TLSA
// discovery; "fails closed" also covers discovery itself: whatever goes wrong
// while looking the records up must never end in an unauthenticated delivery.
// DNS facts for one MX are enumerated and served by a loopback mockdns server
// to the real DNSSEC-aware resolver; the real PrepareConn + CheckConn decide.

import (
	"context"
	"crypto/sha256"
	"crypto/tls"
	"encoding/hex"
	"encoding/json"
	"errors"
	"fmt"
	"net"
	"strconv"
	"testing"

	"github.com/foxcpp/go-mockdns"
	maddydns "github.com/foxcpp/maddy/framework/dns"
	"github.com/foxcpp/maddy/framework/exterrors"
	"github.com/foxcpp/maddy/framework/log"
	"github.com/foxcpp/maddy/framework/module"
	"github.com/foxcpp/maddy/internal/verif/vx"
	"github.com/miekg/dns"
)

type c13dCase struct {
	Alias   string `json:"mx_name"`                // plain | cname-secure | cname-insecure
	AD      bool   `json:"addresses_ad"`           // address records DNSSEC-authenticated
	AtCanon string `json:"tlsa_at_canonical_name"` // none | match | mismatch | servfail | insecure   (plain: at the MX name)
	AtOrig  string `json:"tlsa_at_mx_name"`        // the same (only for aliases)
	TLS     string `json:"tls"`                    // none | leaf
	// Resolver: "" = one loopback resolver; "fallback-non-loopback" = the configured loopback
	// resolver does not answer and the answers come from a second, non-loopback server
	// (its AD flag is not to be trusted: nothing is DNSSEC-authenticated then)
	Resolver string `json:"resolver,omitempty"`
	// Addr: address records of the (canonical) MX name: "" = A only, "aaaa" = IPv6-only host, "a+aaaa"
	Addr string `json:"address_records,omitempty"`
	// IDNHost: the MX host name holds an IDN A-label (it is queried as written, never as U-label)
	IDNHost bool `json:"idn_mx_host,omitempty"`
}

type c13dNopLog struct{}

func (c13dNopLog) Printf(string, ...interface{}) {}

var c13dServer *mockdns.Server

func c13dRun(w *c13World, c c13dCase) (fp, detail, outcome string) {
	mx := c13MX
	if c.IDNHost {
		mx = "mx.xn--e1afmkfd.example"
	}
	canon := "canon." + mx
	zones := map[string]mockdns.Zone{}
	addrName := mx
	if c.Alias != "plain" {
		zones[mx+"."] = mockdns.Zone{CNAME: canon + ".", AD: c.Alias == "cname-secure"}
		addrName = canon
	}
	switch c.Addr {
	case "aaaa":
		zones[addrName+"."] = mockdns.Zone{AAAA: []string{"::1"}, AD: c.AD}
	case "a+aaaa":
		zones[addrName+"."] = mockdns.Zone{A: []string{"127.0.0.1"}, AAAA: []string{"::1"}, AD: c.AD}
	default:
		zones[addrName+"."] = mockdns.Zone{A: []string{"127.0.0.1"}, AD: c.AD}
	}
	leaf := w.chains[0].Certs[0]
	put := func(name, kind string) {
		tn := "_25._tcp." + name + "."
		mk := func(data []byte) *dns.TLSA {
			return &dns.TLSA{Hdr: dns.RR_Header{Name: tn, Class: dns.ClassINET, Rrtype: dns.TypeTLSA, Ttl: 9999}, Usage: 3, Selector: 1, MatchingType: 1, Certificate: hex.EncodeToString(data)}
		}
		match := sha256.Sum256(leaf.RawSubjectPublicKeyInfo)
		other := sha256.Sum256([]byte("another key"))
		switch kind {
		case "match":
			zones[tn] = mockdns.Zone{AD: true, Misc: map[dns.Type][]dns.RR{dns.Type(dns.TypeTLSA): {mk(match[:])}}}
		case "mismatch":
			zones[tn] = mockdns.Zone{AD: true, Misc: map[dns.Type][]dns.RR{dns.Type(dns.TypeTLSA): {mk(other[:])}}}
		case "insecure":
			zones[tn] = mockdns.Zone{AD: false, Misc: map[dns.Type][]dns.RR{dns.Type(dns.TypeTLSA): {mk(match[:])}}}
		case "servfail":
			zones[tn] = mockdns.Zone{AD: true, Err: errors.New("scripted SERVFAIL")}
		case "unusable":
			// an authenticated RRset made only of records outside the defined parameter ranges
			r1, r2, r3 := mk(match[:]), mk(match[:]), mk(match[:])
			r1.Usage, r2.Selector, r3.MatchingType = 4, 2, 3
			zones[tn] = mockdns.Zone{AD: true, Misc: map[dns.Type][]dns.RR{dns.Type(dns.TypeTLSA): {r1, r2, r3}}}
		}
	}
	put(addrName, c.AtCanon)
	if c.Alias != "plain" {
		put(mx, c.AtOrig)
	}
	if c13dServer == nil {
		var err error
		for try := 0; try < 50; try++ {
			c13dServer, err = mockdns.NewServerWithLogger(zones, c13dNopLog{}, false)
			if err == nil {
				break
			}
		}
		if err != nil {
			return "HARNESS:dns", err.Error(), ""
		}
	}
	c13dServer.Resolver().Zones = zones
	addr := c13dServer.LocalAddr().(*net.UDPAddr)
	ext := maddydns.VerifExtResolver(addr.IP.String(), strconv.Itoa(addr.Port))
	if c.Resolver == "fallback-non-loopback" {
		// 127.0.0.2:<port> has no listener (the query fails at once); 0.0.0.0 reaches the
		// server on this host and is not a loopback address
		ext = maddydns.VerifExtResolverServers([]string{"127.0.0.2", "0.0.0.0"}, strconv.Itoa(addr.Port))
	}
	pol := &danePolicy{extResolver: ext, log: log.Logger{Out: log.NopOutput{}}}
	d := pol.Start(&module.MsgMetadata{ID: "c13d"}).(*daneDelivery)
	d.PrepareConn(context.Background(), mx)
	st := tls.ConnectionState{ServerName: mx}
	if c.TLS == "leaf" {
		st.HandshakeComplete = true
		st.PeerCertificates = w.chains[0].Certs
	}
	lvl, err := d.CheckConn(context.Background(), module.MXNone, module.TLSNone, "verif.example", mx, st)
	d.Reset(nil)
	// ---- what the statement (and RFC 7672 discovery) demand ------------------------------------
	secureAlias := c.Alias == "cname-secure"
	// which record set applies
	applies := "none"
	lookupFailed := false
	switch {
	case c.Alias == "plain":
		if c.AD {
			applies = c.AtCanon
		}
	default:
		// a secure chain (alias and addresses authenticated): the canonical name first
		if c.AD && secureAlias {
			switch c.AtCanon {
			case "servfail":
				lookupFailed = true
			case "match", "mismatch":
				applies = c.AtCanon
			default: // none / insecure: fall back to the MX name
				applies = c.AtOrig
			}
		} else if secureAlias {
			// addresses not authenticated but the alias is signed: the MX name's own records
			applies = c.AtOrig
		}
	}
	if applies == "servfail" {
		lookupFailed = true
	}
	if applies == "insecure" {
		applies = "none"
	}
	granted := err == nil && lvl == module.TLSAuthenticated
	if c.Resolver == "fallback-non-loopback" {
		// answers of a resolver reached over the network carry no authentication
		applies, lookupFailed = "none", false
	}
	switch {
	case lookupFailed:
		if err == nil {
			return "C13:discovery:lookup-failure-not-refused", fmt.Sprintf("TLSA discovery failed (SERVFAIL) and CheckConn returned level %v without an error: the delivery goes on unauthenticated", lvl), ""
		}
		if !exterrors.IsTemporary(err) {
			return "C13:discovery:lookup-failure-not-temporary", fmt.Sprint(err), ""
		}
		outcome = "discovery failed: deferred"
	case applies == "match":
		if c.TLS == "leaf" && !granted {
			return "C13:discovery:matching-record-not-honoured", fmt.Sprintf("level %v err %v", lvl, err), ""
		}
		if c.TLS == "none" && err == nil {
			return "C13:discovery:records-without-tls-not-refused", fmt.Sprintf("level %v", lvl), ""
		}
		outcome = "usable matching record: " + c.TLS
	case applies == "unusable":
		// records exist: TLS is mandatory; none of them can authenticate or refuse a TLS session
		if c.TLS == "none" && err == nil {
			return "C13:discovery:records-without-tls-not-refused", fmt.Sprintf("only unusable records are published and the session has no TLS: level %v, no error", lvl), ""
		}
		if c.TLS == "leaf" && (granted || err != nil) {
			return "C13:discovery:unusable-records-decide", fmt.Sprintf("only unusable records: level %v err %v", lvl, err), ""
		}
		outcome = "only unusable records: " + c.TLS
	case applies == "mismatch":
		if err == nil {
			return "C13:discovery:no-match-not-refused", fmt.Sprintf("level %v, TLS %s", lvl, c.TLS), ""
		}
		outcome = "usable records, no match: refused"
	default:
		if granted {
			return "C13:discovery:granted-without-records", "", ""
		}
		if err != nil {
			return "C13:discovery:refused-without-records", fmt.Sprint(err), ""
		}
		outcome = "no applicable records: neither granted nor refused"
	}
	return "", "", outcome
}

func TestVerifC13Discovery(t *testing.T) {
	r := vx.Start("C13", "discovery")
	defer r.Finish()
	r.Rule("TLSA discovery for one MX through the real PrepareConn/CheckConn of the dane policy and the real DNSSEC-aware resolver against a loopback DNS server: MX name {plain, secure CNAME, insecure CNAME} x address records {A, AAAA only, both} authenticated or not x TLSA at the canonical name {none, matching EE, mismatching EE, SERVFAIL, not authenticated} x TLSA at the MX name (for aliases, the same five) x TLS {none, matching leaf}; plus an MX host name with an IDN A-label; plus an authenticated record set holding only records outside the defined parameter ranges; plus the same records served by a non-loopback fallback resolver (the loopback one does not answer); oracle: nothing from a non-loopback resolver is authenticated, a failed lookup of the applicable record set defers (temporary error), usable records are applied as in the statement, absent / non-authenticated records neither grant nor refuse. Non-trivial: all cases")
	w := c13NewWorld()
	if rp := r.Replay(); rp != nil {
		var c c13dCase
		if json.Unmarshal(rp, &c) != nil || c.Alias == "" {
			return
		}
		fp, detail, _ := c13dRun(w, c)
		r.Eval()
		if fp != "" {
			r.Violation(fp, detail, c)
		}
		return
	}
	if r.Replaying() {
		return
	}
	kinds := []string{"none", "match", "mismatch", "servfail", "insecure"}
	idx := 0
	// the answers come from a non-loopback fallback resolver: DANE must be a no-op whatever they say
	for _, ac := range []string{"none", "match", "mismatch"} {
		for _, t := range []string{"none", "leaf"} {
			idx++
			if !r.Mine(idx) {
				continue
			}
			c := c13dCase{Alias: "plain", AD: true, AtCanon: ac, AtOrig: "none", TLS: t, Resolver: "fallback-non-loopback"}
			fp, detail, oc := c13dRun(w, c)
			r.Eval()
			r.Nontrivial(vx.JSON(c))
			if fp == "HARNESS:dns" {
				r.HarnessError(detail)
				return
			}
			if fp != "" {
				r.Violation(fp, detail+"\ncase: "+vx.JSON(c), c)
				continue
			}
			r.Outcome("non-loopback resolver: " + oc)
		}
	}
	// an MX host name with an IDN A-label
	for _, ac := range []string{"match", "mismatch"} {
		for _, t := range []string{"none", "leaf"} {
			for _, alias := range []string{"plain", "cname-secure"} {
				idx++
				if !r.Mine(idx) {
					continue
				}
				c := c13dCase{Alias: alias, AD: true, AtCanon: ac, AtOrig: "none", TLS: t, IDNHost: true}
				fp, detail, oc := c13dRun(w, c)
				r.Eval()
				r.Nontrivial(vx.JSON(c))
				if fp == "HARNESS:dns" {
					r.HarnessError(detail)
					return
				}
				if fp != "" {
					r.Violation(fp, detail+"\ncase: "+vx.JSON(c), c)
					continue
				}
				r.Outcome("IDN MX host: " + oc)
			}
		}
	}
	// an authenticated RRset that holds only records outside the defined parameter ranges
	for _, t := range []string{"none", "leaf"} {
		for _, addr := range []string{"", "aaaa"} {
			idx++
			if !r.Mine(idx) {
				continue
			}
			c := c13dCase{Alias: "plain", AD: true, AtCanon: "unusable", AtOrig: "none", TLS: t, Addr: addr}
			fp, detail, oc := c13dRun(w, c)
			r.Eval()
			r.Nontrivial(vx.JSON(c))
			if fp == "HARNESS:dns" {
				r.HarnessError(detail)
				return
			}
			if fp != "" {
				r.Violation(fp, detail+"\ncase: "+vx.JSON(c), c)
				continue
			}
			r.Outcome(oc)
		}
	}
	for _, alias := range []string{"plain", "cname-secure", "cname-insecure"} {
		for _, ad := range []bool{true, false} {
			for _, ac := range kinds {
				if !ad && !(ac == "none" || ac == "insecure") {
					// the address records and _25._tcp.<same name> live in one zone: a zone whose
					// address records are not authenticated cannot serve authenticated TLSA answers
					continue
				}
				origs := []string{"none"}
				if alias != "plain" {
					origs = kinds
				}
				for _, ao := range origs {
					for _, t := range []string{"none", "leaf"} {
						for _, addr := range []string{"", "aaaa", "a+aaaa"} {
							idx++
							if !r.Mine(idx) {
								continue
							}
							c := c13dCase{Alias: alias, AD: ad, AtCanon: ac, AtOrig: ao, TLS: t, Addr: addr}
							fp, detail, oc := c13dRun(w, c)
							r.Eval()
							r.Nontrivial(vx.JSON(c))
							if fp == "HARNESS:dns" {
								r.HarnessError(detail)
								return
							}
							if fp != "" {
								r.Violation(fp, detail+"\ncase: "+vx.JSON(c), c)
								continue
							}
							r.Outcome(oc)
							r.Sample(c)
						}
					}
				}
			}
		}
	}
}
