package remote

// C13 — DANE authenticates only on a matching usable TLSA record and fails
// closed. Exhaustive multiset product of TLSA records x presented chains x
// handshake state through the real verifyDANE (and the policy's CheckConn),
// compared with a transcription of the statement.

import (
	"context"
	"crypto/ecdsa"
	"crypto/elliptic"
	"crypto/rand"
	"crypto/sha256"
	"crypto/sha512"
	"crypto/tls"
	"crypto/x509"
	"crypto/x509/pkix"
	"encoding/hex"
	"encoding/json"
	"errors"
	"fmt"
	"math/big"
	"net"
	"sort"
	"testing"
	"time"

	"github.com/foxcpp/maddy/framework/dns"
	"github.com/foxcpp/maddy/framework/exterrors"
	"github.com/foxcpp/maddy/framework/future"
	"github.com/foxcpp/maddy/framework/module"
	"github.com/foxcpp/maddy/internal/verif/vx"
	miekgdns "github.com/miekg/dns"
)

const c13MX = "mx.verif.example"

type c13PKI struct {
	root, inter, leaf, expired, wrongName, selfSigned, nonCA *x509.Certificate
}

func c13MakeCert(cn string, isCA bool, parent *x509.Certificate, parentKey *ecdsa.PrivateKey, names []string, notBefore, notAfter time.Time, serial int64) (*x509.Certificate, *ecdsa.PrivateKey) {
	key, err := ecdsa.GenerateKey(elliptic.P256(), rand.Reader)
	if err != nil {
		panic(err)
	}
	tpl := &x509.Certificate{
		SerialNumber: big.NewInt(serial), Subject: pkix.Name{CommonName: cn},
		NotBefore: notBefore, NotAfter: notAfter, DNSNames: names,
		BasicConstraintsValid: true, IsCA: isCA,
		KeyUsage: x509.KeyUsageDigitalSignature,
	}
	if isCA {
		tpl.KeyUsage |= x509.KeyUsageCertSign
	} else {
		tpl.ExtKeyUsage = []x509.ExtKeyUsage{x509.ExtKeyUsageServerAuth}
	}
	p, pk := tpl, key
	if parent != nil {
		p, pk = parent, parentKey
	}
	der, err := x509.CreateCertificate(rand.Reader, tpl, p, &key.PublicKey, pk)
	if err != nil {
		panic(err)
	}
	c, err := x509.ParseCertificate(der)
	if err != nil {
		panic(err)
	}
	return c, key
}

func c13NewPKI() *c13PKI {
	now := time.Now()
	from, to := now.Add(-24*time.Hour), now.Add(24*time.Hour)
	root, rk := c13MakeCert("Verif Root", true, nil, nil, nil, from, to, 1)
	inter, ik := c13MakeCert("Verif Intermediate", true, root, rk, nil, from, to, 2)
	leaf, _ := c13MakeCert("leaf", false, inter, ik, []string{c13MX}, from, to, 3)
	expired, _ := c13MakeCert("expired leaf", false, inter, ik, []string{c13MX}, now.Add(-72*time.Hour), now.Add(-48*time.Hour), 4)
	wrong, _ := c13MakeCert("wrong name leaf", false, inter, ik, []string{"other.example"}, from, to, 5)
	self, _ := c13MakeCert("self-signed leaf", false, nil, nil, []string{c13MX}, from, to, 6)
	return &c13PKI{root: root, inter: inter, leaf: leaf, expired: expired, wrongName: wrong, selfSigned: self}
}

type c13Rec struct {
	Usage, Selector, MType uint8
	Data                   string // leaf | inter | root | none
}

func (r c13Rec) String() string {
	return fmt.Sprintf("%d %d %d %s", r.Usage, r.Selector, r.MType, r.Data)
}

func c13Assoc(cert *x509.Certificate, sel, mt uint8) (string, bool) {
	var raw []byte
	switch sel {
	case 0:
		raw = cert.Raw
	case 1:
		raw = cert.RawSubjectPublicKeyInfo
	default:
		// out-of-range selector: data of selector 0 so that a sloppy implementation would match
		raw = cert.Raw
	}
	switch mt {
	case 0:
		return hex.EncodeToString(raw), true
	case 1:
		h := sha256.Sum256(raw)
		return hex.EncodeToString(h[:]), true
	case 2:
		h := sha512.Sum512(raw)
		return hex.EncodeToString(h[:]), true
	default:
		h := sha256.Sum256(raw)
		return hex.EncodeToString(h[:]), true
	}
}

type c13Chain struct {
	Name  string
	Certs []*x509.Certificate
}

type c13Case struct {
	Recs      []c13Rec `json:"recs"`
	Chain     string   `json:"chain"`
	Handshake bool     `json:"handshake"`
}

type c13World struct {
	pki    *c13PKI
	chains []c13Chain
	// chainsTo[chainName][i] = leaf of that chain validly chains to presented cert i as trust anchor for the MX name
	chainsTo map[string][]bool
}

func c13NewWorld() *c13World {
	p := c13NewPKI()
	w := &c13World{pki: p}
	w.chains = []c13Chain{
		{"leaf-only", []*x509.Certificate{p.leaf}},
		{"leaf+inter", []*x509.Certificate{p.leaf, p.inter}},
		{"leaf+inter+root", []*x509.Certificate{p.leaf, p.inter, p.root}},
		{"expired+inter+root", []*x509.Certificate{p.expired, p.inter, p.root}},
		{"wrongname+inter+root", []*x509.Certificate{p.wrongName, p.inter, p.root}},
		{"selfsigned", []*x509.Certificate{p.selfSigned}},
	}
	w.chainsTo = map[string][]bool{}
	for _, ch := range w.chains {
		res := make([]bool, len(ch.Certs))
		for i, anchor := range ch.Certs {
			if !anchor.IsCA {
				continue
			}
			opts := x509.VerifyOptions{DNSName: c13MX, Roots: x509.NewCertPool(), Intermediates: x509.NewCertPool()}
			opts.Roots.AddCert(anchor)
			for j, c := range ch.Certs {
				if j != i && j != 0 {
					opts.Intermediates.AddCert(c)
				}
			}
			_, err := ch.Certs[0].Verify(opts)
			res[i] = err == nil
		}
		w.chainsTo[ch.Name] = res
	}
	return w
}

func (w *c13World) certOf(data string) *x509.Certificate {
	switch data {
	case "leaf":
		return w.pki.leaf
	case "inter":
		return w.pki.inter
	case "root":
		return w.pki.root
	}
	return nil
}

func (w *c13World) tlsa(r c13Rec, chainLeaf *x509.Certificate) dns.TLSA {
	var data string
	c := w.certOf(r.Data)
	if r.Data == "leaf" {
		c = chainLeaf // "matching the leaf" means the leaf that is presented
	}
	if c == nil {
		data = "00112233445566778899aabbccddeeff00112233445566778899aabbccddeeff"
	} else {
		data, _ = c13Assoc(c, r.Selector, r.MType)
	}
	return dns.TLSA{Hdr: miekgdns.RR_Header{Name: "_25._tcp." + c13MX + ".", Rrtype: miekgdns.TypeTLSA, Class: miekgdns.ClassINET, Ttl: 60},
		Usage: r.Usage, Selector: r.Selector, MatchingType: r.MType, Certificate: data}
}

// expect transcribes the statement: returns (grant, refuse).
func (w *c13World) expect(c c13Case, ch c13Chain) (grant, refuse bool) {
	if len(c.Recs) == 0 {
		return false, false
	}
	if !c.Handshake {
		return false, true
	}
	usable := 0
	matched := false
	for _, r := range c.Recs {
		if (r.Usage != 2 && r.Usage != 3) || r.Selector > 1 || r.MType > 2 {
			continue
		}
		usable++
		if r.Usage == 3 {
			// DANE-EE: matches the server's own certificate
			if r.Data == "leaf" {
				matched = true
			}
			continue
		}
		// DANE-TA: matches a CA certificate of the presented chain to which the leaf validly chains
		target := w.certOf(r.Data)
		if r.Data == "leaf" {
			target = ch.Certs[0]
		}
		if target == nil {
			continue
		}
		for i, pc := range ch.Certs {
			if pc.Equal(target) && pc.IsCA && w.chainsTo[ch.Name][i] {
				matched = true
			}
		}
	}
	if usable == 0 {
		return false, false
	}
	if matched {
		return true, false
	}
	return false, true
}

func (w *c13World) eval(r *vx.Run, c c13Case) {
	var ch c13Chain
	for _, x := range w.chains {
		if x.Name == c.Chain {
			ch = x
		}
	}
	var recs []dns.TLSA
	for _, rc := range c.Recs {
		recs = append(recs, w.tlsa(rc, ch.Certs[0]))
	}
	st := tls.ConnectionState{ServerName: c13MX}
	if c.Handshake {
		st.HandshakeComplete = true
		st.PeerCertificates = ch.Certs
	}
	wantGrant, wantRefuse := w.expect(c, ch)
	r.Eval()
	var grant bool
	var err error
	if p := vx.Catch(func() { grant, err = verifyDANE(recs, st) }); p != nil {
		r.Violation("C13:panic:verifyDANE", fmt.Sprintf("%v on %s", p, vx.JSON(c)), c)
		return
	}
	gotGrant := grant && err == nil
	gotRefuse := err != nil
	kind := ""
	switch {
	case gotGrant && !wantGrant:
		kind = "authenticated-without-matching-record"
	case !gotGrant && wantGrant:
		kind = "matching-record-not-honoured"
	case gotRefuse && !wantRefuse:
		kind = "refused-without-usable-records"
	case !gotRefuse && wantRefuse:
		kind = "not-refused"
	}
	if kind != "" {
		r.Violation("C13:verify:"+kind, fmt.Sprintf("records %v, chain %s, handshake %v: verifyDANE = (%v, %v); statement gives grant=%v refuse=%v", c.Recs, c.Chain, c.Handshake, grant, err, wantGrant, wantRefuse), c)
		return
	}
	if gotRefuse && exterrors.IsTemporary(err) {
		r.Violation("C13:verify:refusal-temporary", fmt.Sprintf("%v", err), c)
	}
	// the same through the policy object's CheckConn with the records already discovered
	dd := &daneDelivery{c: &danePolicy{extResolver: &dns.ExtResolver{}}, tlsaFut: future.New()}
	dd.tlsaFut.Set(recs, nil)
	lvl, err2 := dd.CheckConn(context.Background(), module.MXNone, module.TLSEncrypted, "verif.example", c13MX, st)
	if (err2 != nil) != wantRefuse || (lvl == module.TLSAuthenticated) != wantGrant {
		r.Violation("C13:policy:"+"checkconn-differs", fmt.Sprintf("records %v, chain %s, handshake %v: CheckConn = (%v, %v); statement gives grant=%v refuse=%v", c.Recs, c.Chain, c.Handshake, lvl, err2, wantGrant, wantRefuse), c)
	}
	out := "neither"
	if wantGrant {
		out = "grant"
	} else if wantRefuse {
		out = "refuse"
	}
	r.Outcome(out)
	if wantGrant || wantRefuse {
		r.Nontrivial(vx.JSON(c))
	}
}

func c13Alphabet(full bool) []c13Rec {
	var rs []c13Rec
	usages := []uint8{0, 1, 2, 3, 4}
	sels := []uint8{0, 1, 2}
	mts := []uint8{0, 1, 2, 3}
	if !full {
		usages = []uint8{1, 2, 3}
		sels = []uint8{0, 2}
		mts = []uint8{1, 3}
	}
	for _, u := range usages {
		for _, s := range sels {
			for _, m := range mts {
				for _, d := range []string{"leaf", "inter", "root", "none"} {
					rs = append(rs, c13Rec{u, s, m, d})
				}
			}
		}
	}
	return rs
}

func TestVerifC13(t *testing.T) {
	r := vx.Start("C13", "dane")
	defer r.Finish()
	w := c13NewWorld()
	r.Rule("every multiset of <= 2 TLSA records over the full alphabet (usage 0-4 x selector 0-2 x matching type 0-3 x association data of leaf/intermediate/root/nothing = 240 records), and of <= 3 (quick) / <= 4 (thorough) over a reduced alphabet (one representative per usable/unusable class), against 6 presented chains (leaf only, +intermediate, +root, expired leaf, wrong-name leaf, self-signed) with and without a completed handshake, through the real verifyDANE and the DANE policy's CheckConn; plus lookup outcomes {not found, temporary error} through CheckConn; oracle: transcription of the statement (grant iff usable EE record matches the presented leaf or usable TA record matches a presented CA certificate to which the leaf validly chains for the MX name; refuse iff any record and no TLS, or usable records and no match; otherwise neither). Non-trivial: distinct cases where the statement demands a grant or a refusal")
	if rp := r.Replay(); rp != nil {
		var c c13Case
		if json.Unmarshal(rp, &c) != nil {
			r.HarnessError("bad replay")
			return
		}
		w.eval(r, c)
		return
	}
	if r.Replaying() {
		return
	}
	idx := 0
	run := func(alpha []c13Rec, maxSize int) {
		var rec func(start int, cur []c13Rec)
		rec = func(start int, cur []c13Rec) {
			idx++
			if r.Mine(idx) {
				for _, ch := range w.chains {
					for _, hs := range []bool{true, false} {
						c := c13Case{Recs: append([]c13Rec{}, cur...), Chain: ch.Name, Handshake: hs}
						w.eval(r, c)
						if idx%20011 == 0 && hs {
							r.Sample(c)
						}
					}
				}
			}
			if len(cur) == maxSize {
				return
			}
			for i := start; i < len(alpha); i++ {
				rec(i, append(cur, alpha[i]))
			}
		}
		rec(0, nil)
	}
	run(c13Alphabet(true), 2)
	if vx.Thorough() {
		run(c13Alphabet(false), 4)
	} else {
		run(c13Alphabet(false), 3)
	}
	// lookup outcomes through the policy
	if r.Mine(0) {
		for _, oc := range []struct {
			name string
			err  error
		}{{"notfound", &net.DNSError{Err: "no such host", IsNotFound: true}}, {"temporary", &net.DNSError{Err: "server misbehaving", IsTemporary: true}}, {"other", errors.New("bogus DNSSEC signature")}} {
			for _, hs := range []bool{true, false} {
				st := tls.ConnectionState{ServerName: c13MX, HandshakeComplete: hs}
				if hs {
					st.PeerCertificates = w.chains[2].Certs
				}
				dd := &daneDelivery{c: &danePolicy{extResolver: &dns.ExtResolver{}}, tlsaFut: future.New()}
				dd.tlsaFut.Set(nil, oc.err)
				lvl, err := dd.CheckConn(context.Background(), module.MXNone, module.TLSEncrypted, "verif.example", c13MX, st)
				r.Eval()
				if lvl == module.TLSAuthenticated {
					r.Violation("C13:policy:lookup-failure-grants", oc.name, c13Case{})
				}
				if oc.name == "notfound" && err != nil {
					r.Violation("C13:policy:notfound-refuses", fmt.Sprint(err), c13Case{})
				}
				if oc.name != "notfound" && (err == nil || !exterrors.IsTemporary(err)) {
					r.Violation("C13:policy:lookup-failure-not-deferred", fmt.Sprintf("%s: CheckConn error = %v", oc.name, err), c13Case{})
				}
			}
		}
	}
	r.Bound("full_alphabet", len(c13Alphabet(true)))
	r.Bound("reduced_alphabet", len(c13Alphabet(false)))
	var names []string
	for _, c := range w.chains {
		names = append(names, c.Name)
	}
	sort.Strings(names)
	r.Bound("chains", names)
}
