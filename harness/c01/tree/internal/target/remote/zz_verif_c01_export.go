package remote

// Verification-only constructor (injected by overlay, never part of the tree):
// a real remote target whose dialer and resolver are supplied by the harness
// (the production Init reads /etc/resolv.conf and dials the network).

import (
	"context"
	"crypto/tls"
	"crypto/x509"
	"net"

	"github.com/foxcpp/go-mockdns"
	"github.com/foxcpp/maddy/framework/log"
	"github.com/foxcpp/maddy/internal/limits"
	"github.com/foxcpp/maddy/internal/smtpconn/pool"
)

func VerifNewTarget(dial func(ctx context.Context, network, addr string) (net.Conn, error), zones map[string]mockdns.Zone, roots *x509.CertPool) *Target {
	return &Target{
		name:           "remote",
		hostname:       "mx.verif.example",
		resolver:       &mockdns.Resolver{Zones: zones},
		dialer:         dial,
		tlsConfig:      &tls.Config{RootCAs: roots},
		Log:            log.Logger{Out: log.NopOutput{}},
		limits:         &limits.Group{},
		connReuseLimit: 10,
		pool:           pool.New(pool.Config{MaxKeys: 5000, MaxConnsPerKey: 5, MaxConnLifetimeSec: 150, StaleKeyLifetimeSec: 300}),
	}
}

// VerifSetLimits installs a limits group (the production Init reads it from configuration).
func VerifSetLimits(rt *Target, g *limits.Group) { rt.limits = g }

// VerifSetIdleLifetime replaces the connection pool by one with the given idle lifetime
// (seconds) for pooled connections (configuration directive conn_max_idle_time).
func VerifSetIdleLifetime(rt *Target, sec int64) {
	rt.pool.Close()
	rt.pool = pool.New(pool.Config{MaxKeys: 5000, MaxConnsPerKey: 5, MaxConnLifetimeSec: sec, StaleKeyLifetimeSec: 300})
}
