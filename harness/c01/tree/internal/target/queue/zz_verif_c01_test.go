package queue

// C01 — one terminal outcome per queued recipient. Explicit-state BFS over the
// real queue: a state is the per-recipient ledger between attempts, a
// transition is one delivery attempt under one demand-driven fault plan.

import (
	"encoding/json"
	"fmt"
	"os"
	"path/filepath"
	"regexp"
	"sort"
	"strings"
	"testing"

	"github.com/foxcpp/maddy/framework/address"
	"github.com/foxcpp/maddy/framework/module"
	"github.com/foxcpp/maddy/internal/verif/vx"
)

type c01Cfg struct {
	Partial  bool     `json:"partial"`
	Rcpts    []string `json:"rcpts"`
	MaxTries int      `json:"max_tries"`
	From     string   `json:"from"`
	Bounce   bool     `json:"bounce"`
	Classes  int      `json:"classes"`
}

type c01Case struct {
	Cfg  c01Cfg  `json:"cfg"`
	Hist [][]int `json:"history"` // per attempt: positional fault choices
}

type c01Result struct {
	fp, detail string
	state      string // canonical ledger state after the last scripted attempt
	demanded   []int  // arity of each choice demanded in the last scripted attempt
	attempts   int
	terminal   bool
	outcome    string
}

var c01FinalRcpt = regexp.MustCompile(`(?mi)^Final-Recipient:\s*(?:rfc822|utf-?8)\s*;\s*(\S+)\s*$`)

// c01Run executes one history on a fresh real queue and checks it against the
// reference ledger.
func c01Run(scratch string, c c01Case) c01Result {
	res := c01Result{}
	dir, err := os.MkdirTemp(scratch, "c01-")
	if err != nil {
		return c01Result{fp: "HARNESS:tmpdir", detail: err.Error()}
	}
	defer os.RemoveAll(dir)
	cfg := c.Cfg
	tgt := &qhTarget{name: "target", partial: cfg.Partial, spool: dir}
	var bounce *qhTarget
	if cfg.Bounce {
		bounce = &qhTarget{name: "bounce"}
	}
	last := len(c.Hist) - 1
	pos := map[int]int{}
	tgt.decide = func(d *qhDeliv, stage, rcpt string) int {
		if stage == "abort" {
			return qhOK
		}
		a := d.Attempt - 1
		if a > last {
			return qhOK
		}
		p := pos[a]
		pos[a]++
		if a == last {
			res.demanded = append(res.demanded, cfg.Classes)
		}
		if p < len(c.Hist[a]) {
			return c.Hist[a][p]
		}
		return qhOK
	}
	var subErr error
	out := qhRun(func() {
		o := qhQueueOpts{dir: dir, target: tgt, maxTries: cfg.MaxTries}
		if bounce != nil {
			o.bounce = bounce
		}
		q, err := qhNewQueue(o)
		if err != nil {
			subErr = err
			return
		}
		m := qhSimpleMsg("m1", cfg.From, cfg.Rcpts...)
		m.Meta = &module.MsgMetadata{}
		// a message with a non-ASCII local part can only exist as an SMTPUTF8 message
		for _, rc := range cfg.Rcpts {
			if mb, _, err := address.Split(rc); err == nil && !c01ASCII(mb) {
				m.Meta.SMTPOpts.UTF8 = true
			}
		}
		if _, err := qhSubmit(q, m); err != nil {
			subErr = err
		}
	})
	if subErr != nil {
		return c01Result{fp: "C01:submit-refused", detail: subErr.Error()}
	}
	if len(out.Panics) > 0 {
		return c01Result{fp: "C01:panic:" + vx.PanicSite(out.Panics[0]), detail: out.Panics[0]}
	}
	if out.Deadlock || out.StepCap {
		return c01Result{fp: "C01:hang", detail: fmt.Sprintf("deadlock=%v stepcap=%v blocked=%v", out.Deadlock, out.StepCap, out.Blocked)}
	}
	fail := func(kind, f string, a ...any) c01Result {
		var ev []string
		for _, d := range tgt.dels {
			ev = append(ev, fmt.Sprintf("attempt %d: %s -> %s", d.Attempt, strings.Join(d.Events, " "), d.Closed))
		}
		if bounce != nil {
			for _, d := range bounce.dels {
				ev = append(ev, fmt.Sprintf("report to %v naming %v (%s)", d.Accepted, c01FinalRcpt.FindAllStringSubmatch(string(d.Body), -1), d.Closed))
			}
		}
		return c01Result{fp: "C01:" + kind, detail: fmt.Sprintf(f, a...) + "\n  " + strings.Join(ev, "\n  ")}
	}
	if len(tgt.viol) > 0 {
		return fail("typestate", "%s", strings.Join(tgt.viol, "; "))
	}
	// ---- reference ledger replay -------------------------------------------------
	type rs struct {
		tries  int
		status string
	}
	led := map[string]*rs{}
	pending := append([]string{}, cfg.Rcpts...)
	for _, r := range pending {
		led[r] = &rs{status: "pending"}
	}
	deliveredCount := map[string]int{}
	var expectedReports [][]string
	for i, d := range tgt.dels {
		if len(pending) == 0 {
			return fail("attempt-after-terminal", "attempt %d started although no recipient is pending", d.Attempt)
		}
		if d.Attempt != i+1 {
			return fail("attempt-numbering", "delivery %d has attempt %d", i, d.Attempt)
		}
		if d.From != cfg.From {
			return fail("sender-changed", "attempt %d sender %q", d.Attempt, d.From)
		}
		class := map[string]int{}
		if d.Closed == "start-failed" {
			c0 := 0
			for _, e := range d.Events {
				if strings.HasPrefix(e, "start=") {
					for ci, n := range qhClassNames {
						if e == "start="+n {
							c0 = ci
						}
					}
				}
			}
			for _, r := range pending {
				class[r] = c0
			}
		} else {
			if strings.Join(d.Offered, ",") != strings.Join(pending, ",") {
				return fail("wrong-recipients-attempted", "attempt %d offered %v, ledger says pending %v", d.Attempt, d.Offered, pending)
			}
			for r, cl := range d.RcptErr {
				class[r] = cl
			}
			if len(d.Accepted) == 0 {
				if d.Closed != "abort" || d.BodySeen {
					return fail("not-aborted", "attempt %d: no recipient accepted but delivery is %q (body seen: %v)", d.Attempt, d.Closed, d.BodySeen)
				}
			} else {
				if !d.BodySeen {
					return fail("no-body", "attempt %d: recipients accepted but no body sent", d.Attempt)
				}
				allFailed := true
				if d.NonAtom {
					for _, r := range d.Accepted {
						if d.Status[r] != qhOK {
							class[r] = d.Status[r]
						} else {
							allFailed = false
						}
					}
				} else if d.BodyErr != qhOK {
					for _, r := range d.Accepted {
						class[r] = d.BodyErr
					}
				} else {
					allFailed = false
				}
				if allFailed {
					if d.Closed != "abort" {
						return fail("not-aborted", "attempt %d: body failed for all but delivery is %q", d.Attempt, d.Closed)
					}
				} else {
					if d.Closed != "commit" {
						return fail("not-committed", "attempt %d: delivery is %q", d.Attempt, d.Closed)
					}
					if !d.CommitOK {
						cc := 0
						for _, e := range d.Events {
							for ci, n := range qhClassNames {
								if e == "commit="+n {
									cc = ci
								}
							}
						}
						for _, r := range d.Accepted {
							class[r] = cc
						}
					}
				}
			}
		}
		for _, r := range d.DeliveredRcpts() {
			deliveredCount[r]++
		}
		var next, failedNow []string
		for _, r := range pending {
			cl, bad := class[r]
			if !bad || cl == qhOK {
				led[r].status = "delivered"
				continue
			}
			if qhRetryable(cl) && led[r].tries+1 < cfg.MaxTries {
				led[r].tries++
				next = append(next, r)
			} else {
				led[r].status = "failed"
				failedNow = append(failedNow, r)
			}
		}
		pending = next
		if len(failedNow) > 0 && cfg.From != "" && cfg.Bounce {
			expectedReports = append(expectedReports, failedNow)
		}
		if i == last {
			var ks []string
			for _, r := range cfg.Rcpts {
				ks = append(ks, fmt.Sprintf("%s=%s/%d", r, led[r].status, led[r].tries))
			}
			res.state = strings.Join(ks, " ")
			res.terminal = len(pending) == 0
		}
	}
	res.attempts = len(tgt.dels)
	if len(pending) != 0 {
		return fail("recipient-abandoned", "queue went quiet with recipients still pending: %v (attempts made: %d)", pending, len(tgt.dels))
	}
	if res.state == "" {
		// the message reached a terminal state before the last scripted attempt
		res.terminal = true
		res.state = "terminal-early"
	}
	for _, r := range cfg.Rcpts {
		want := 0
		if led[r].status == "delivered" {
			want = 1
		}
		if deliveredCount[r] != want {
			return fail("commit-count", "recipient %s is %s in the ledger but was committed %d time(s)", r, led[r].status, deliveredCount[r])
		}
	}
	// ---- failure reports ------------------------------------------------------------
	var gotReports [][]string
	if bounce != nil {
		if len(bounce.viol) > 0 {
			return fail("report-typestate", "%s", strings.Join(bounce.viol, "; "))
		}
		for _, d := range bounce.dels {
			if d.Closed != "commit" || !d.CommitOK {
				return fail("report-not-committed", "report delivery ended %q", d.Closed)
			}
			if d.From != "" {
				return fail("report-sender", "report sent with envelope sender %q", d.From)
			}
			if len(d.Accepted) != 1 || d.Accepted[0] != cfg.From {
				return fail("report-recipient", "report addressed to %v, sender was %q", d.Accepted, cfg.From)
			}
			var named []string
			for _, m := range c01FinalRcpt.FindAllStringSubmatch(string(d.Body), -1) {
				named = append(named, m[1])
			}
			gotReports = append(gotReports, named)
		}
	}
	canon := func(rr [][]string) string {
		var ps []string
		for _, r := range rr {
			var s []string
			for _, a := range r {
				// A-label and U-label spellings name the same recipient
				if k, err := address.ForLookup(a); err == nil {
					a = k
				}
				s = append(s, a)
			}
			sort.Strings(s)
			ps = append(ps, strings.Join(s, ","))
		}
		return strings.Join(ps, " | ")
	}
	if canon(gotReports) != canon(expectedReports) {
		return fail("failure-reports", "reports name [%s], ledger expects [%s]", canon(gotReports), canon(expectedReports))
	}
	// ---- spool clean ------------------------------------------------------------------
	if fs := qhSpoolFiles(dir); len(fs) != 0 {
		return fail("spool-not-empty", "files left after the terminal outcome: %v", fs)
	}
	var oc []string
	for _, r := range cfg.Rcpts {
		oc = append(oc, led[r].status)
	}
	res.outcome = fmt.Sprintf("%s/attempts=%d/reports=%d", strings.Join(oc, ","), res.attempts, len(gotReports))
	return res
}

func c01Configs(thorough bool) []c01Cfg {
	var cs []c01Cfg
	// the last pair: two distinct recipients whose lookup keys coincide (letter case)
	rsets := [][]string{{"a@example.org"}, {"a@example.org", "b@example.org"}, {"a@example.org", "ü@пример.рф"}, {"John.Doe@example.org", "john.doe@example.org"}}
	if thorough {
		rsets = append(rsets, []string{"a@example.org", "b@example.org", "c@xn--e1afmkfd.xn--p1ai"})
	}
	classes := 4
	if thorough {
		classes = 6
	}
	for _, partial := range []bool{false, true} {
		for _, rs := range rsets {
			for _, mt := range []int{2, 3} {
				if len(rs) == 3 && mt == 3 && !partial {
					// largest atomic case: kept to max_tries 2
					continue
				}
				for _, sb := range []struct {
					from   string
					bounce bool
				}{{"sender@example.com", true}, {"", true}, {"sender@example.com", false}} {
					cl := classes
					if len(rs) == 3 {
						cl = 4
					}
					if len(rs) == 1 || (mt == 2 && !c01ASCII(strings.Join(rs, ""))) {
						// replies of the next hop (SMTP error values with multi-line,
						// non-ASCII text) also in the quick tier: one recipient, and the
						// SMTPUTF8 message
						cl = 6
					}
					cs = append(cs, c01Cfg{Partial: partial, Rcpts: rs, MaxTries: mt, From: sb.from, Bounce: sb.bounce, Classes: cl})
				}
			}
		}
	}
	return cs
}

func TestVerifC01(t *testing.T) {
	r := vx.Start("C01", "ledger")
	defer r.Finish()
	scratch := os.Getenv("VERIF_SCRATCH")
	if scratch == "" {
		scratch = os.TempDir()
	}
	scratch = filepath.Join(scratch, fmt.Sprintf("c01-%d", r.Shard))
	os.MkdirAll(scratch, 0o755)
	defer os.RemoveAll(scratch)
	r.Rule("explicit-state BFS over the real queue (production retry timing on a virtual clock): state = per-recipient ledger (pending with try count / delivered / failed) between attempts, transition = one delivery attempt under one fault plan enumerated on demand (start x per-recipient AddRcpt x body or per-recipient status x commit, each in {ok, temporary, permanent, unclassified[, SMTP 4xx, SMTP 5xx]}); successor = fresh queue + replay of the plan history + one plan, run to quiescence with all later attempts succeeding; oracle = reference ledger (DESIGN.md B.1): recipients attempted = ledger-pending, abort/commit typestate, exactly one commit per delivered recipient, exactly one report naming each terminally failed recipient, attempts <= max_tries, spool empty. Non-trivial: distinct (configuration, canonical state, plan) transitions with at least one injected failure")
	if rp := r.Replay(); rp != nil {
		var c c01Case
		if err := json.Unmarshal(rp, &c); err != nil {
			r.HarnessError("bad replay")
			return
		}
		res := c01Run(scratch, c)
		r.Eval()
		fmt.Printf("NOTE: replay state=%q outcome=%q fp=%q\n%s\n", res.state, res.outcome, res.fp, res.detail)
		if res.fp != "" {
			r.Violation(res.fp, res.detail, c)
		}
		return
	}
	if r.Replaying() {
		return
	}
	cfgs := c01Configs(vx.Thorough())
	r.Bound("configurations", len(cfgs))
	var states, transitions int64
	maxDepth := 0
	for ci, cfg := range cfgs {
		if !r.Mine(ci) {
			continue
		}
		seen := map[string]bool{"init": true}
		frontier := [][][]int{{}}
		states++
		for len(frontier) > 0 {
			h := frontier[0]
			frontier = frontier[1:]
			if len(h) >= cfg.MaxTries {
				continue
			}
			if len(h)+1 > maxDepth {
				maxDepth = len(h) + 1
			}
			// DFS over the demanded choices of the new attempt
			var rec func(prefix []int)
			rec = func(prefix []int) {
				hist := append(append([][]int{}, h...), prefix)
				c := c01Case{Cfg: cfg, Hist: hist}
				res := c01Run(scratch, c)
				r.Eval()
				transitions++
				if strings.HasPrefix(res.fp, "HARNESS:") {
					r.HarnessError(res.fp + " " + res.detail)
					return
				}
				nz := false
				for _, x := range prefix {
					if x != 0 {
						nz = true
					}
				}
				if nz {
					r.Nontrivial(fmt.Sprintf("%d|%v|%v", ci, h, prefix))
				}
				if res.fp != "" {
					r.Violation(res.fp, fmt.Sprintf("configuration %s, history %v\n%s", vx.JSON(cfg), hist, res.detail), c)
				} else {
					r.Outcome(res.outcome)
					if !res.terminal && res.state != "terminal-early" && !seen[res.state] {
						seen[res.state] = true
						states++
						frontier = append(frontier, hist)
						if states%7 == 1 {
							r.Sample(map[string]any{"cfg": cfg, "history": hist, "state": res.state})
						}
					} else if res.terminal && !seen["T:"+res.state] {
						seen["T:"+res.state] = true
						states++
					}
				}
				for i := len(prefix); i < len(res.demanded); i++ {
					for alt := 1; alt < res.demanded[i]; alt++ {
						np := make([]int, i+1)
						copy(np, prefix)
						np[i] = alt
						rec(np)
					}
				}
			}
			rec(nil)
		}
	}
	r.Count("states", states)
	r.Count("transitions", transitions)
	r.Count("traces_validated_against_impl", transitions)
	r.MaxCount("max_depth", int64(maxDepth))
}

func c01ASCII(s string) bool {
	for i := 0; i < len(s); i++ {
		if s[i] >= 0x80 {
			return false
		}
	}
	return true
}
