package queue

// C01 (part "realhop") — the queue in front of the REAL outbound targets
// (target.remote with its connection pool, target.smtp, target.lmtp) talking
// to a scripted, misbehaving next hop: per stage of every transaction of every
// attempt the server answers ok / 4xx / 5xx or drops the connection. The plans
// are enumerated on demand (only stages the run actually reached are varied)
// up to a bound on the number of faults. Free-running (real queue code, retry
// delay 0); the oracle is a ledger computed from what the SERVER saw.

import (
	"context"
	"encoding/json"
	"fmt"
	"net"
	"os"
	"path/filepath"
	"sort"
	"strings"
	"sync"
	"testing"
	"time"

	"github.com/emersion/go-message/textproto"
	"github.com/emersion/go-smtp"
	"github.com/foxcpp/maddy/framework/buffer"
	"github.com/foxcpp/go-mockdns"
	"github.com/foxcpp/maddy/framework/config"
	parser "github.com/foxcpp/maddy/framework/cfgparser"
	"github.com/foxcpp/maddy/framework/log"
	"github.com/foxcpp/maddy/framework/module"
	"github.com/foxcpp/maddy/internal/limits"
	"github.com/foxcpp/maddy/internal/target/remote"
	tsmtp "github.com/foxcpp/maddy/internal/target/smtp"
	"github.com/foxcpp/maddy/internal/verif/peers"
	"github.com/foxcpp/maddy/internal/verif/vx"
)

type c01rCfg struct {
	Kind     string   `json:"downstream"` // remote | smtp | lmtp
	Rcpts    []string `json:"rcpts"`
	MaxTries int      `json:"max_tries"`
	From     string   `json:"from"`
}

type c01rCase struct {
	Cfg  c01rCfg           `json:"cfg"`
	Plan map[string]string `json:"plan"` // "aNN|<rank><stage>|<host>|<arg>" -> "4" | "5" | "drop"
}

var c01rStageRank = map[string]int{"session": 0, "mail": 1, "rcpt": 2, "data": 3, "status": 4, "quit": 5}

func c01rHostOf(kind, rcpt string) string {
	if kind != "remote" {
		return "mx.next.example"
	}
	if strings.HasSuffix(rcpt, "@d2.example") {
		return "mx.d2.example"
	}
	return "mx.d1.example"
}

// c01rTap wraps the real target: numbers the attempts, records what the queue offered.
type c01rTap struct {
	inner module.DeliveryTarget
	w     *c01rWorld
}

type c01rTapDelivery struct {
	module.Delivery
	w *c01rWorld
	k int
}

type c01rTapPartial struct {
	*c01rTapDelivery
}

type c01rAttempt struct {
	startErr bool
	offered  []string
	ended    bool
}

type c01rWorld struct {
	mu       sync.Mutex
	attempts []*c01rAttempt
	events   []string // "start k" / "end k" / "report a,b"
	consult  []string // consulted plan keys with their action: key + "=" + action
	demanded map[string]bool
	last     time.Time
	plan     map[string]string
	kind     string
}

func (w *c01rWorld) ev(s string) {
	w.events = append(w.events, s)
	w.last = time.Now()
}

func (t *c01rTap) Name() string           { return "c01rtap" }
func (t *c01rTap) InstanceName() string   { return "c01rtap" }
func (t *c01rTap) Init(*config.Map) error { return nil }

func (t *c01rTap) Start(ctx context.Context, m *module.MsgMetadata, from string) (module.Delivery, error) {
	w := t.w
	w.mu.Lock()
	a := &c01rAttempt{}
	w.attempts = append(w.attempts, a)
	k := len(w.attempts)
	w.ev(fmt.Sprintf("start %d", k))
	w.mu.Unlock()
	d, err := t.inner.Start(ctx, m, from)
	if err != nil {
		w.mu.Lock()
		a.startErr, a.ended = true, true
		w.ev(fmt.Sprintf("end %d", k))
		w.mu.Unlock()
		return nil, err
	}
	td := &c01rTapDelivery{Delivery: d, w: w, k: k}
	if _, ok := d.(module.PartialDelivery); ok {
		return &c01rTapPartial{td}, nil
	}
	return td, nil
}

func (d *c01rTapDelivery) AddRcpt(ctx context.Context, to string, o smtp.RcptOptions) error {
	d.w.mu.Lock()
	a := d.w.attempts[d.k-1]
	a.offered = append(a.offered, to)
	d.w.last = time.Now()
	d.w.mu.Unlock()
	return d.Delivery.AddRcpt(ctx, to, o)
}

func (d *c01rTapDelivery) end() {
	d.w.mu.Lock()
	d.w.attempts[d.k-1].ended = true
	d.w.ev(fmt.Sprintf("end %d", d.k))
	d.w.mu.Unlock()
}

func (d *c01rTapDelivery) Commit(ctx context.Context) error {
	err := d.Delivery.Commit(ctx)
	d.end()
	return err
}

func (d *c01rTapDelivery) Abort(ctx context.Context) error {
	err := d.Delivery.Abort(ctx)
	d.end()
	return err
}

func (d *c01rTapPartial) BodyNonAtomic(ctx context.Context, sc module.StatusCollector, h textproto.Header, b buffer.Buffer) {
	d.Delivery.(module.PartialDelivery).BodyNonAtomic(ctx, sc, h, b)
}

// curAttempt is read by the scripted servers.
func (w *c01rWorld) curAttempt() int {
	w.mu.Lock()
	defer w.mu.Unlock()
	return len(w.attempts)
}

func (w *c01rWorld) action(host, stage, arg string, record bool) string {
	k := w.curAttempt()
	key := fmt.Sprintf("a%02d|%d%s|%s|%s", k, c01rStageRank[stage], stage, host, strings.ToLower(arg))
	w.mu.Lock()
	defer w.mu.Unlock()
	act := w.plan[key]
	if record {
		w.demanded[key] = true
		w.consult = append(w.consult, key+"="+act)
		w.last = time.Now()
	}
	return act
}

// The scripted server asks Drop and then Reply at the stages mail / rcpt / data / status,
// and Reply only at the stage session: each consultation is logged once.
func (w *c01rWorld) script(host string, lmtp bool) peers.Script {
	return peers.Script{Host: host, LMTP: lmtp, SMTPUTF8: true,
		Reply: func(stage, arg string) *smtp.SMTPError {
			switch w.action(host, stage, arg, stage == "session") {
			case "4":
				return peers.Err(451, [3]int{4, 3, 0}, "scripted 451 at "+stage)
			case "421":
				return peers.Err(421, [3]int{4, 4, 2}, "scripted 421 at "+stage)
			case "450ne":
				return &smtp.SMTPError{Code: 450, EnhancedCode: smtp.NoEnhancedCode, Message: "scripted 450 without enhanced code at " + stage}
			case "554ne":
				return &smtp.SMTPError{Code: 554, EnhancedCode: smtp.NoEnhancedCode, Message: "scripted 554 without enhanced code at " + stage}
			case "552":
				return peers.Err(552, [3]int{5, 3, 4}, "scripted 552 at "+stage)
			case "5":
				return peers.Err(550, [3]int{5, 1, 1}, "scripted 550 at "+stage)
			}
			return nil
		},
		Drop: func(stage, arg string) bool {
			return w.action(host, stage, arg, true) == "drop"
		},
	}
}

type c01rResult struct {
	fp, detail string
	demanded   []string
	outcome    string
	quietHang  bool
}

var c01rPKI = peers.NewPKI()

func c01rRun(scratch string, c c01rCase) (res c01rResult) {
	dir, err := os.MkdirTemp(scratch, "c01r-")
	if err != nil {
		return c01rResult{fp: "HARNESS:tmpdir", detail: err.Error()}
	}
	defer os.RemoveAll(dir)
	w := &c01rWorld{plan: c.Plan, demanded: map[string]bool{}, kind: c.Cfg.Kind, last: time.Now()}
	pw := peers.NewWorld(c01rPKI)
	defer pw.Close()
	var inner module.DeliveryTarget
	var lim *limits.Group
	var closers []func()
	defer func() {
		for _, f := range closers {
			f()
		}
	}()
	switch c.Cfg.Kind {
	case "remote":
		for _, h := range []string{"mx.d1.example", "mx.d2.example"} {
			pw.Add(w.script(h, false))
		}
		zones := map[string]mockdns.Zone{
			"d1.example.":    {MX: []net.MX{{Host: "mx.d1.example.", Pref: 10}}},
			"mx.d1.example.": {A: []string{"127.0.0.1"}},
			"d2.example.":    {MX: []net.MX{{Host: "mx.d2.example.", Pref: 10}}},
			"mx.d2.example.": {A: []string{"127.0.0.2"}},
		}
		rt := remote.VerifNewTarget(pw.Dial, zones, c01rPKI.Pool)
		closers = append(closers, func() { rt.Close() })
		inner = rt
		if c01rLimits {
			mod, err := limits.New("limits", "c11r", nil, nil)
			if err != nil {
				return c01rResult{fp: "HARNESS:limits", detail: err.Error()}
			}
			lim = mod.(*limits.Group)
			if err := lim.Init(config.NewMap(map[string]interface{}{}, config.Node{Children: []config.Node{
				{Name: "all", Args: []string{"concurrency", "2"}},
				{Name: "destination", Args: []string{"concurrency", "1"}},
			}})); err != nil {
				return c01rResult{fp: "HARNESS:limits-init", detail: err.Error()}
			}
			remote.VerifSetLimits(rt, lim)
		}
	case "smtp", "lmtp":
		sock := filepath.Join(dir, "next.sock")
		stop, err := pw.AddUnix(w.script("mx.next.example", c.Cfg.Kind == "lmtp"), sock)
		if err != nil {
			return c01rResult{fp: "HARNESS:listen", detail: err.Error()}
		}
		closers = append(closers, stop)
		nodes, err := parser.Read(strings.NewReader("hostname mx.verif.example\ntargets unix://"+sock+"\nstarttls no\n"), "c01r")
		if err != nil {
			return c01rResult{fp: "HARNESS:config", detail: err.Error()}
		}
		dm, err := tsmtp.NewDownstream("target."+c.Cfg.Kind, "c01r", nil, nil)
		if err != nil {
			return c01rResult{fp: "HARNESS:downstream", detail: err.Error()}
		}
		if err := dm.Init(config.NewMap(map[string]interface{}{}, config.Node{Children: nodes})); err != nil {
			return c01rResult{fp: "HARNESS:downstream-init", detail: err.Error()}
		}
		inner = dm.(module.DeliveryTarget)
	}
	bounce := &qhTarget{name: "bounce", commitNote: func(d *qhDeliv) string { return strings.Join(qhNamed(d.Body), ",") }}
	bounce.onEvent = func(ev string) {
		if strings.HasPrefix(ev, "bounce:commit:") {
			p := strings.SplitN(ev, ":", 5)
			w.mu.Lock()
			w.ev("report " + p[4])
			w.mu.Unlock()
		}
	}
	mod, _ := NewQueue("", "queue", nil, nil)
	q := mod.(*Queue)
	q.initialRetryTime = 0
	q.retryTimeScale = 1
	q.postInitDelay = 0
	q.maxTries = c.Cfg.MaxTries
	q.location = filepath.Join(dir, "spool")
	os.MkdirAll(q.location, 0o700)
	q.Target = &c01rTap{inner: inner, w: w}
	q.dsnPipeline = bounce
	q.hostname = "mx.verif.example"
	q.autogenMsgDomain = "verif.example"
	q.Log = log.Logger{Out: log.NopOutput{}}
	if os.Getenv("VERIF_QUEUE_DEBUG") != "" {
		q.Log = log.Logger{Out: log.WriterOutput(os.Stderr, false), Debug: true, Name: "queue"}
	}
	if err := q.start(1); err != nil {
		return c01rResult{fp: "HARNESS:queue", detail: err.Error()}
	}
	closed := false
	defer func() {
		if !closed {
			q.Close()
		}
	}()
	m := qhSimpleMsg("m1", c.Cfg.From, c.Cfg.Rcpts...)
	m.Meta = &module.MsgMetadata{}
	if _, err := qhSubmit(q, m); err != nil {
		return c01rResult{fp: "C01:real:submit-refused", detail: err.Error()}
	}
	// ---- wait for the terminal state: the spool is empty ---------------------------------------
	// (event-driven: the condition is polled; the deadline only bounds a run in which
	// nothing happens any more)
	quiet := false
	for {
		if len(qhSpoolFiles(q.location)) == 0 {
			break
		}
		w.mu.Lock()
		idle := time.Since(w.last)
		w.mu.Unlock()
		if idle > 20*time.Second {
			quiet = true
			break
		}
		time.Sleep(200 * time.Microsecond)
	}
	if !quiet {
		q.Close()
		closed = true
	}
	w.mu.Lock()
	defer w.mu.Unlock()
	for k := range w.demanded {
		res.demanded = append(res.demanded, k)
	}
	sort.Strings(res.demanded)
	fail := func(kind, f string, a ...any) c01rResult {
		var ev []string
		ev = append(ev, "events: "+strings.Join(w.events, " / "))
		ev = append(ev, "server consulted: "+strings.Join(w.consult, " "))
		for i, a := range w.attempts {
			ev = append(ev, fmt.Sprintf("attempt %d: start-failed=%v offered=%v", i+1, a.startErr, a.offered))
		}
		for _, t := range pw.Txns() {
			ev = append(ev, fmt.Sprintf("server txn host=%s conn=%d tried=%v accepted=%v data-ok=%v", t.Host, t.ConnID, t.RcptTried, t.Rcpts, t.DataOK))
		}
		r := res
		r.fp, r.detail = "C01:real:"+kind+":"+c.Cfg.Kind, fmt.Sprintf(f, a...)+"\n  "+strings.Join(ev, "\n  ")
		return r
	}
	if quiet {
		res.quietHang = true
		return fail("queue-went-quiet", "nothing happened for 20 s and the spool still holds %v", qhSpoolFiles(q.location))
	}
	if len(bounce.viol) > 0 {
		return fail("report-typestate", "%s", strings.Join(bounce.viol, "; "))
	}
	if lim != nil {
		// C11: the queue is closed, no delivery is in flight: every permit of the
		// remote target's limits is back (counters read directly, no waiting)
		all, dest := lim.VerifHeldC01()
		if all != 0 {
			return fail("permit-not-returned:all", "after the last attempt %d permit(s) of scope all are still held", all)
		}
		for k, n := range dest {
			if n != 0 {
				return fail("permit-not-returned:destination", "after the last attempt %d permit(s) of destination %q are still held", n, k)
			}
		}
	}
	// ---- server-side facts per attempt -----------------------------------------------------------
	// delivered[k][r]: the server completed a transaction of attempt k for r
	attemptOfTxn := func(order int) int { return 0 }
	_ = attemptOfTxn
	// transactions carry no attempt number; the consult log does: map each (host, stage=mail) consult to its attempt in order
	type srvTxn struct {
		attempt int
		t       peers.Txn
	}
	var stx []srvTxn
	{
		var mailAttempts []int
		for _, cs := range w.consult {
			key := strings.SplitN(cs, "=", 2)[0]
			p := strings.Split(key, "|")
			if p[1] == "1mail" {
				var k int
				fmt.Sscanf(p[0], "a%d", &k)
				mailAttempts = append(mailAttempts, k)
			}
		}
		txns := pw.Txns()
		if len(txns) != len(mailAttempts) {
			return c01rResult{fp: "HARNESS:txn-count", detail: fmt.Sprintf("%d transactions, %d MAIL consults", len(txns), len(mailAttempts))}
		}
		// Txns() is in MAIL order, as is the consult log
		for i, t := range txns {
			stx = append(stx, srvTxn{mailAttempts[i], t})
		}
	}
	actions := map[string]string{} // consulted key -> action
	consulted := map[string]bool{}
	for _, cs := range w.consult {
		kv := strings.SplitN(cs, "=", 2)
		consulted[kv[0]] = true
		if kv[1] != "" {
			actions[kv[0]] = kv[1]
		}
	}
	lmtp := c.Cfg.Kind == "lmtp"
	deliveredIn := func(k int, r string) int {
		n := 0
		for _, st := range stx {
			if st.attempt != k || st.t.Data == nil {
				continue
			}
			for _, a := range st.t.Rcpts {
				if a != r {
					continue
				}
				ok := st.t.DataOK
				if lmtp {
					host := c01rHostOf(c.Cfg.Kind, r)
					// LMTP: the server answered this recipient with success, and the
					// connection was not lost before the per-recipient replies
					skey := fmt.Sprintf("a%02d|4status|%s|%s", k, host, strings.ToLower(r))
					ok = consulted[skey] && actions[fmt.Sprintf("a%02d|3data|%s|", k, host)] == "" && actions[skey] == ""
					for ak, av := range actions {
						if av == "drop" && strings.HasPrefix(ak, fmt.Sprintf("a%02d|4status|%s|", k, host)) {
							ok = false
						}
					}
				}
				if ok {
					n++
				}
			}
		}
		return n
	}
	classIn := func(k int, r string) string {
		host := c01rHostOf(c.Cfg.Kind, r)
		get := func(stage, arg string) string {
			return actions[fmt.Sprintf("a%02d|%d%s|%s|%s", k, c01rStageRank[stage], stage, host, strings.ToLower(arg))]
		}
		statusA := get("status", r)
		for ak, av := range actions {
			if av == "drop" && strings.HasPrefix(ak, fmt.Sprintf("a%02d|4status|%s|", k, host)) {
				statusA = "drop"
			}
		}
		for _, a := range []string{get("rcpt", r), get("mail", ""), get("data", ""), statusA} {
			switch a {
			case "4", "421", "450ne":
				return "temp"
			case "554ne":
				return "perm"
			case "552":
				return "free" // RFC 5321 4.5.3.1.10 lets a client treat 552 as 452: retry or give up
			case "5":
				return "perm"
			case "drop":
				return "free"
			}
		}
		return "free" // not delivered for a reason that carries no reply for this recipient (greeting refused, connection lost at another stage)
	}
	// ---- ledger ------------------------------------------------------------------------------------
	reporting := c.Cfg.From != ""
	reportsAfter := map[int][][]string{}
	{
		cur := 0
		for _, e := range w.events {
			switch {
			case strings.HasPrefix(e, "end "):
				fmt.Sscanf(e, "end %d", &cur)
			case strings.HasPrefix(e, "start "):
			case strings.HasPrefix(e, "report "):
				var names []string
				for _, n := range strings.Split(strings.TrimPrefix(e, "report "), ",") {
					if n != "" {
						names = append(names, n)
					}
				}
				reportsAfter[cur] = append(reportsAfter[cur], names)
			}
		}
	}
	if !reporting && len(bounce.dels) > 0 {
		return fail("report-for-null-sender", "a failure report was generated although the sender is the null address")
	}
	for _, d := range bounce.dels {
		if d.Closed != "commit" || !d.CommitOK {
			return fail("report-not-committed", "report delivery ended %q", d.Closed)
		}
		if d.From != "" || len(d.Accepted) != 1 || d.Accepted[0] != c.Cfg.From {
			return fail("report-envelope", "report sent from %q to %v (sender of the message: %q)", d.From, d.Accepted, c.Cfg.From)
		}
	}
	pending := append([]string{}, c.Cfg.Rcpts...)
	tries := map[string]int{}
	status := map[string]string{}
	totalDelivered := map[string]int{}
	pendingAt := map[int][]string{} // recipients pending when attempt k started
	for k := 1; k <= len(w.attempts); k++ {
		a := w.attempts[k-1]
		pendingAt[k] = append([]string{}, pending...)
		if len(pending) == 0 {
			return fail("attempt-after-terminal", "attempt %d started although every recipient had a terminal outcome", k)
		}
		if !a.startErr && strings.Join(a.offered, ",") != strings.Join(pending, ",") {
			return fail("wrong-recipients-attempted", "attempt %d offered %v; pending by the ledger: %v", k, a.offered, pending)
		}
		named := map[string]int{}
		for _, rep := range reportsAfter[k] {
			for _, n := range rep {
				named[n]++
			}
		}
		var next []string
		for _, r := range pending {
			n := deliveredIn(k, r)
			totalDelivered[r] += n
			if n > 1 {
				return fail("delivered-twice", "attempt %d: the next hop completed %d transactions for %s", k, n, r)
			}
			cl := "ok"
			if n == 0 {
				cl = classIn(k, r)
			}
			exhausted := tries[r]+1 >= c.Cfg.MaxTries
			switch {
			case cl == "ok":
				status[r] = "delivered"
				if named[r] > 0 {
					return fail("report-for-delivered", "attempt %d delivered %s, yet a failure report names it", k, r)
				}
			case cl == "perm" || (cl == "temp" && exhausted):
				status[r] = "failed"
				if reporting && named[r] != 1 {
					return fail("failure-reports", "attempt %d: %s failed terminally (%s, try %d of %d) and is named by %d report(s) after this attempt", k, r, cl, tries[r]+1, c.Cfg.MaxTries, named[r])
				}
			case cl == "temp":
				if named[r] > 0 {
					return fail("reported-although-retryable", "attempt %d: %s got a 4xx reply on try %d of %d and was reported as failed", k, r, tries[r]+1, c.Cfg.MaxTries)
				}
				tries[r]++
				next = append(next, r)
			default: // free: the queue may retry or give up, but it must do one of the two
				if named[r] > 1 {
					return fail("failure-reports", "attempt %d: %s is named by %d reports", k, r, named[r])
				}
				if named[r] == 1 {
					status[r] = "failed"
				} else if exhausted {
					status[r] = "failed"
					if reporting {
						return fail("failure-reports", "attempt %d: %s was not delivered on its last permitted try (%d of %d) and no report names it", k, r, tries[r]+1, c.Cfg.MaxTries)
					}
				} else {
					tries[r]++
					next = append(next, r)
				}
			}
			delete(named, r)
		}
		for n := range named {
			return fail("failure-reports", "after attempt %d a report names %s, which did not fail in that attempt", k, n)
		}
		pending = next
	}
	if len(pending) != 0 {
		return fail("recipient-abandoned", "the spool is empty but %v had neither been delivered to the next hop nor reported (attempts made: %d)", pending, len(w.attempts))
	}
	for _, r := range c.Cfg.Rcpts {
		want := 0
		if status[r] == "delivered" {
			want = 1
		}
		if totalDelivered[r] != want {
			return fail("commit-count", "%s is %s by the ledger but the next hop completed %d transaction(s) for it", r, status[r], totalDelivered[r])
		}
	}
	var oc []string
	for _, r := range c.Cfg.Rcpts {
		oc = append(oc, status[r])
	}
	if c01rCheckReports {
		// ---- C16: the reports agree with how the failures were treated ---------------------
		kindIn := func(k int, r string) string {
			host := c01rHostOf(c.Cfg.Kind, r)
			for _, st := range []string{"rcpt", "mail", "data", "status"} {
				arg := ""
				if st == "rcpt" || st == "status" {
					arg = strings.ToLower(r)
				}
				for ak, av := range actions {
					if av != "" && strings.HasPrefix(ak, fmt.Sprintf("a%02d|%d%s|%s|", k, c01rStageRank[st], st, host)) && (arg == "" || strings.HasSuffix(ak, "|"+arg)) {
						return st + ":" + av // the treatment of a reply may depend on the stage (552 at RCPT is handled as 452)
					}
				}
			}
			return ""
		}
		ri := 0
		for k := 1; k <= len(w.attempts); k++ {
			for range reportsAfter[k] {
				if ri >= len(bounce.dels) {
					break
				}
				body := string(bounce.dels[ri].Body)
				ri++
				for _, blk := range strings.Split(strings.ReplaceAll(body, "\r\n", "\n"), "\n\n") {
					m := c01FinalRcpt.FindStringSubmatch(blk)
					if m == nil {
						continue
					}
					rc := m[1]
					var st, dc string
					for _, ln := range strings.Split(blk, "\n") {
						if v, ok := strings.CutPrefix(ln, "Status: "); ok {
							st = strings.TrimSpace(v)
						}
						if v, ok := strings.CutPrefix(ln, "Diagnostic-Code: smtp; "); ok {
							dc = strings.TrimSpace(v)
						}
					}
					if len(st) < 1 || len(dc) < 1 {
						return fail("report:status-missing", "report after attempt %d: recipient %s has Status %q and Diagnostic-Code %q", k, rc, st, dc)
					}
					if st[0] != dc[0] {
						return fail("report:classes-disagree", "report after attempt %d: recipient %s has Status %s and Diagnostic-Code %s", k, rc, st, dc)
					}
					tryNo := 0
					for j := 1; j <= k; j++ {
						for _, o := range pendingAt[j] {
							if strings.EqualFold(o, rc) {
								tryNo++
							}
						}
					}
					kind := kindIn(k, rc)
					if tryNo > 0 && tryNo < c.Cfg.MaxTries && st[0] != '5' {
						return fail("report:class-vs-treatment", "recipient %s was given up after try %d of %d (treated as a permanent failure) but the report says Status %s (reply kind %q)", rc, tryNo, c.Cfg.MaxTries, st, kind)
					}
					for j := 1; j < k; j++ {
						if kind != "" && !strings.HasSuffix(kind, ":drop") && kindIn(j, rc) == kind && st[0] != '4' {
							return fail("report:class-vs-treatment", "recipient %s got the reply %q in attempt %d and was retried (treated as temporary); the same reply in attempt %d is reported with Status %s / %s", rc, kind, j, k, st, dc)
						}
					}
					switch kind[strings.Index(kind, ":")+1:] {
					case "4", "421", "450ne":
						if st[0] != '4' {
							return fail("report:class-vs-reply", "recipient %s got a 4xx reply (%s) and is reported with Status %s", rc, kind, st)
						}
					case "5", "554ne":
						if st[0] != '5' {
							return fail("report:class-vs-reply", "recipient %s got a 5xx reply (%s) and is reported with Status %s", rc, kind, st)
						}
					}
				}
			}
		}
	}
	res.outcome = fmt.Sprintf("%s/attempts=%d/reports=%d", strings.Join(oc, ","), len(w.attempts), len(bounce.dels))
	return res
}

// answers scripted by the C01 part; the C16 part adds 552
var c01rActs = []string{"4", "5", "drop", "421", "450ne", "554ne"}

// c01rLimits: the remote target gets a real limits group (C11 part)
var c01rLimits bool

// c01rCheckReports: also judge the content of the failure reports (C16 part)
var c01rCheckReports bool

// c01rAllowed: which answers are scripted at which stage. A refused greeting is
// modelled by 451 and by a dropped connection; 421 ("closing the channel") only at
// MAIL / RCPT / DATA; at QUIT the connection can only be dropped (go-smtp answers
// QUIT itself).
func c01rAllowed(key, act string) bool {
	switch {
	case strings.Contains(key, "|0session|"):
		return act == "4" || act == "drop"
	case strings.Contains(key, "|5quit|"):
		return act == "drop"
	case strings.Contains(key, "|4status|"):
		return act != "421"
	}
	return true
}

func c01rConfigs(thorough bool) []c01rCfg {
	var cs []c01rCfg
	sets := map[string][][]string{
		"remote": {{"a@d1.example"}, {"a@d1.example", "b@d1.example"}, {"a@d1.example", "b@d2.example"}},
		"smtp":   {{"a@d1.example"}, {"a@d1.example", "b@d1.example"}},
		"lmtp":   {{"a@d1.example"}, {"a@d1.example", "b@d1.example"}},
	}
	if thorough {
		sets["remote"] = append(sets["remote"], []string{"a@d1.example", "b@d1.example", "c@d2.example"}, []string{"a@d1.example", "b@d1.example", "c@d1.example"})
		sets["lmtp"] = append(sets["lmtp"], []string{"a@d1.example", "b@d1.example", "c@d1.example"})
		sets["smtp"] = append(sets["smtp"], []string{"a@d1.example", "b@d1.example", "c@d1.example"})
	}
	tries := []int{2}
	if thorough {
		tries = []int{2, 3}
	}
	for _, kind := range []string{"remote", "smtp", "lmtp"} {
		for _, rs := range sets[kind] {
			for _, mt := range tries {
				for _, from := range []string{"sender@example.com", ""} {
					cs = append(cs, c01rCfg{Kind: kind, Rcpts: rs, MaxTries: mt, From: from})
				}
			}
		}
	}
	return cs
}

func TestVerifC01Real(t *testing.T) {
	r := vx.Start("C01", "realhop")
	defer r.Finish()
	scratch := os.Getenv("VERIF_SCRATCH")
	if scratch == "" {
		scratch = os.TempDir()
	}
	scratch = filepath.Join(scratch, fmt.Sprintf("c01r-%d", r.Shard))
	os.MkdirAll(scratch, 0o755)
	defer os.RemoveAll(scratch)
	bound := 2
	if vx.Thorough() {
		bound = 3
	}
	r.Rule("the real queue (retry delay 0, free-running) in front of the real target.remote (connection pool, one or two recipient domains), target.smtp and target.lmtp, next hop = scripted go-smtp/LMTP server; fault plans enumerated on demand: at every stage the run reached (greeting, MAIL, each RCPT, DATA, each LMTP status, QUIT; per attempt and host) the server answers ok / 451 / 421 / 550 or drops the connection (at QUIT: answers or drops), up to B faults per plan (B = 2 quick; 3 thorough, 6 for configurations with <= 2 recipients and max_tries 2); 1-3 recipients, max_tries 2-3, ordinary and null sender; oracle = ledger computed from what the server saw: every recipient ends delivered exactly once at the next hop or named by exactly one failure report (none for the null sender), recipients offered in each attempt = ledger-pending, no re-attempt after success or a 5xx reply, a 4xx reply is retried until max_tries, a lost connection is retried or reported but never counted as delivered. Non-trivial: distinct plans with at least one fault")
	r.Assume("a recipient that was not delivered for a reason that carries no reply of its own (connection lost, greeting refused) may be retried or reported; for the null sender such plans are only judged through the recipients offered in later attempts")
	r.Bound("faults_per_plan", bound)
	if vx.Thorough() {
		r.Bound("faults_per_plan_small_configurations", 6)
	}
	if rp := r.Replay(); rp != nil {
		var c c01rCase
		if json.Unmarshal(rp, &c) != nil {
			r.HarnessError("bad replay")
			return
		}
		if c.Cfg.Kind == "" {
			return // replay file of another part
		}
		res := c01rRun(scratch, c)
		r.Eval()
		fmt.Printf("NOTE: replay outcome=%q fp=%q\n%s\n", res.outcome, res.fp, res.detail)
		if res.fp != "" {
			r.Violation(res.fp, res.detail, c)
		}
		return
	}
	if r.Replaying() {
		return
	}
	cfgs := c01rConfigs(vx.Thorough())
	r.Bound("configurations", len(cfgs))
	var plans int64
	idx := 0
	for _, cfg := range cfgs {
		bound := bound
		if vx.Thorough() && len(cfg.Rcpts) <= 2 && cfg.MaxTries == 2 {
			bound = 6
		}
		acts := c01rActs
		var rec func(plan map[string]string, last string, top bool)
		rec = func(plan map[string]string, last string, top bool) {
			c := c01rCase{Cfg: cfg, Plan: plan}
			res := c01rRun(scratch, c)
			if res.quietHang {
				// a run in which nothing happens any more: believed only if it reproduces twice
				again := 0
				for i := 0; i < 2; i++ {
					if r2 := c01rRun(scratch, c); r2.quietHang {
						again++
					}
				}
				if again < 2 {
					r.Cap("a run went quiet once and did not reproduce: " + vx.JSON(c))
					return
				}
			}
			r.Eval()
			plans++
			if strings.HasPrefix(res.fp, "HARNESS:") {
				r.HarnessError(res.fp + " " + res.detail + " " + vx.JSON(c))
				return
			}
			if len(plan) > 0 {
				r.Nontrivial(vx.JSON(c))
			}
			if res.fp != "" {
				r.Violation(res.fp, "case "+vx.JSON(c)+"\n"+res.detail, c)
				return
			}
			r.Outcome(res.outcome)
			if plans%101 == 0 {
				r.Sample(c)
			}
			if len(plan) >= bound {
				return
			}
			for _, k := range res.demanded {
				if k <= last {
					continue
				}
				for _, a := range acts {
					if !c01rAllowed(k, a) {
						continue
					}
					if cfg.From == "" && (a == "drop" || strings.Contains(k, "|0session|")) {
						continue // see assumption: no report to tell retry from failure
					}
					np := map[string]string{}
					for x, y := range plan {
						np[x] = y
					}
					np[k] = a
					rec(np, k, false)
				}
			}
		}
		// the first level of the plan tree is distributed over the shards
		c0 := c01rCase{Cfg: cfg, Plan: map[string]string{}}
		res0 := c01rRun(scratch, c0)
		if strings.HasPrefix(res0.fp, "HARNESS:") {
			r.HarnessError(res0.fp + " " + res0.detail)
			return
		}
		idx++
		if r.Mine(idx) {
			r.Eval()
			plans++
			if res0.fp != "" {
				r.Violation(res0.fp, "case "+vx.JSON(c0)+"\n"+res0.detail, c0)
			} else {
				r.Outcome(res0.outcome)
			}
		}
		for _, k := range res0.demanded {
			for _, a := range acts {
				if !c01rAllowed(k, a) {
					continue
				}
				if cfg.From == "" && (a == "drop" || strings.Contains(k, "|0session|")) {
					continue
				}
				idx++
				if !r.Mine(idx) {
					continue
				}
				rec(map[string]string{k: a}, k, true)
			}
		}
	}
	r.Count("plans", plans)
}


// TestVerifC16Hop (C16, part "hop"): the same world, judged for coherence of the
// failure reports with the treatment of the failures (built into the C16 check
// through its tree list).
func TestVerifC16Hop(t *testing.T) {
	r := vx.Start("C16", "hop")
	defer r.Finish()
	scratch := os.Getenv("VERIF_SCRATCH")
	if scratch == "" {
		scratch = os.TempDir()
	}
	scratch = filepath.Join(scratch, fmt.Sprintf("c16h-%d", r.Shard))
	os.MkdirAll(scratch, 0o755)
	defer os.RemoveAll(scratch)
	c01rCheckReports = true
	r.Rule("the real queue (max_tries 2) in front of the real target.remote / target.smtp / target.lmtp and a scripted next hop answering 451 4.3.0 / 421 / 550 5.1.1 / 552 5.3.4 / 450 and 554 without enhanced code at MAIL, RCPT, DATA and LMTP status, up to 2 faults per plan enumerated on demand; oracle on every failure report: Status and Diagnostic-Code classes agree, a recipient given up before its last permitted try is reported with class 5, a reply after which the recipient was retried is reported with class 4 when it is the last one, 4xx replies are reported as 4.x.x and 5xx replies as 5.x.x; the C01 ledger (every failed recipient named by exactly one report) holds as well")
	if rp := r.Replay(); rp != nil {
		var c c01rCase
		if json.Unmarshal(rp, &c) != nil || c.Cfg.Kind == "" {
			return
		}
		res := c01rRun(scratch, c)
		r.Eval()
		if res.fp != "" {
			r.Violation(strings.Replace(res.fp, "C01:real:", "C16:hop:", 1), res.detail, c)
		}
		return
	}
	if r.Replaying() {
		return
	}
	acts := []string{"4", "5", "421", "450ne", "554ne", "552"}
	idx := 0
	for _, kind := range []string{"remote", "smtp", "lmtp"} {
		for _, rs := range [][]string{{"a@d1.example"}, {"a@d1.example", "b@d1.example"}} {
			cfg := c01rCfg{Kind: kind, Rcpts: rs, MaxTries: 2, From: "sender@example.com"}
			var rec func(plan map[string]string, last string)
			rec = func(plan map[string]string, last string) {
				c := c01rCase{Cfg: cfg, Plan: plan}
				res := c01rRun(scratch, c)
				if res.quietHang {
					r.Cap("a run went quiet: " + vx.JSON(c))
					return
				}
				r.Eval()
				if strings.HasPrefix(res.fp, "HARNESS:") {
					r.HarnessError(res.fp + " " + res.detail)
					return
				}
				if len(plan) > 0 {
					r.Nontrivial(vx.JSON(c))
				}
				if res.fp != "" {
					r.Violation(strings.Replace(res.fp, "C01:real:", "C16:hop:", 1), "case "+vx.JSON(c)+"\n"+res.detail, c)
					return
				}
				r.Outcome(res.outcome)
				if len(plan) >= 2 {
					return
				}
				for _, k := range res.demanded {
					if k <= last || strings.Contains(k, "|0session|") || strings.Contains(k, "|5quit|") {
						continue
					}
					for _, a := range acts {
						if strings.Contains(k, "|4status|") && a == "421" {
							continue
						}
						idx++
						if len(plan) == 0 && !r.Mine(idx) {
							continue
						}
						np := map[string]string{}
						for x, y := range plan {
							np[x] = y
						}
						np[k] = a
						rec(np, k)
					}
				}
			}
			rec(map[string]string{}, "")
		}
	}
}


// TestVerifC11Remote (C11, part "remote"): the remote target's own use of the
// limits (message permit in Start, destination permit per MX connection) in the
// realhop world: every permit is back after every fault plan.
func TestVerifC11Remote(t *testing.T) {
	r := vx.Start("C11", "remote")
	defer r.Finish()
	scratch := os.Getenv("VERIF_SCRATCH")
	if scratch == "" {
		scratch = os.TempDir()
	}
	scratch = filepath.Join(scratch, fmt.Sprintf("c11r-%d", r.Shard))
	os.MkdirAll(scratch, 0o755)
	defer os.RemoveAll(scratch)
	c01rLimits = true
	r.Rule("the real queue in front of the real target.remote with a real limits group (all: concurrency 2, destination: concurrency 1) and a scripted next hop answering ok / 451 / 421 / 550 / replies without enhanced code or dropping the connection at greeting, MAIL, each RCPT, DATA and QUIT, up to 2 faults per plan enumerated on demand, 1-2 recipients in 1-2 domains, max_tries 2; oracle: when the message has reached its terminal state no permit of any scope is held (counters read directly), and the C01 ledger holds. Non-trivial: plans with a fault")
	if rp := r.Replay(); rp != nil {
		var c c01rCase
		if json.Unmarshal(rp, &c) != nil || c.Cfg.Kind == "" {
			return
		}
		res := c01rRun(scratch, c)
		r.Eval()
		if res.fp != "" {
			r.Violation(strings.Replace(res.fp, "C01:real:", "C11:remote:", 1), res.detail, c)
		}
		return
	}
	if r.Replaying() {
		return
	}
	idx := 0
	for _, rs := range [][]string{{"a@d1.example"}, {"a@d1.example", "b@d1.example"}, {"a@d1.example", "b@d2.example"}} {
		cfg := c01rCfg{Kind: "remote", Rcpts: rs, MaxTries: 2, From: "sender@example.com"}
		var rec func(plan map[string]string, last string)
		rec = func(plan map[string]string, last string) {
			c := c01rCase{Cfg: cfg, Plan: plan}
			res := c01rRun(scratch, c)
			if res.quietHang {
				r.Cap("a run went quiet: " + vx.JSON(c))
				return
			}
			r.Eval()
			if strings.HasPrefix(res.fp, "HARNESS:") {
				r.HarnessError(res.fp + " " + res.detail)
				return
			}
			if len(plan) > 0 {
				r.Nontrivial(vx.JSON(c))
			}
			if res.fp != "" {
				r.Violation(strings.Replace(res.fp, "C01:real:", "C11:remote:", 1), "case "+vx.JSON(c)+"\n"+res.detail, c)
				return
			}
			r.Outcome(res.outcome)
			if len(plan) >= 2 {
				return
			}
			for _, k := range res.demanded {
				if k <= last {
					continue
				}
				for _, a := range c01rActs {
					if !c01rAllowed(k, a) {
						continue
					}
					idx++
					if len(plan) == 0 && !r.Mine(idx) {
						continue
					}
					np := map[string]string{}
					for x, y := range plan {
						np[x] = y
					}
					np[k] = a
					rec(np, k)
				}
			}
		}
		rec(map[string]string{}, "")
	}
}
