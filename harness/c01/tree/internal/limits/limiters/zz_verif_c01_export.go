package limiters

// Verification-only accessors (injected by overlay, never part of the tree).

// VerifHeldC01 is the number of permits currently held in the semaphore.
func (s Semaphore) VerifHeldC01() int { return len(s.c) }

// VerifLimitersC01 returns the limiter of every key of the set.
func (r *BucketSet) VerifLimitersC01() map[string]L {
	r.mLck.Lock()
	defer r.mLck.Unlock()
	out := map[string]L{}
	for k, v := range r.m {
		out[k] = v.r
	}
	return out
}
