package limiters

import "reflect"

// Verification-only accessors (injected by overlay, never part of the tree).

// VerifHeldC01 is the number of permits currently held in the semaphore.
// (written so that it also compiles against the scheduler-rewritten copy of
// concurrency.go, where the channel is a vsched channel object)
func (s Semaphore) VerifHeldC01() int {
	var c any = s.c
	if l, ok := c.(interface{ Len() int }); ok {
		return l.Len()
	}
	return reflect.ValueOf(c).Len()
}

// VerifLimitersC01 returns the limiter of every key of the set.
func (r *BucketSet) VerifLimitersC01() map[string]L {
	r.mLck.Lock()
	defer r.mLck.Unlock()
	out := map[string]L{}
	for k, v := range r.m {
		out[k] = v.r
	}
	return out
}
