package limits

import "github.com/foxcpp/maddy/internal/limits/limiters"

// Verification-only accessor (injected by overlay, never part of the tree).

func verifHeldC01(l limiters.L) int {
	n := 0
	switch x := l.(type) {
	case limiters.Semaphore:
		n += x.VerifHeldC01()
	case *limiters.MultiLimit:
		for _, w := range x.Wrapped {
			n += verifHeldC01(w)
		}
	}
	return n
}

// VerifHeldC01 reports the concurrency permits held in the global scope and per destination key.
func (g *Group) VerifHeldC01() (all int, dest map[string]int) {
	all = verifHeldC01(&g.global)
	dest = map[string]int{}
	if g.dest != nil {
		for k, l := range g.dest.VerifLimitersC01() {
			dest[k] = verifHeldC01(l)
		}
	}
	return
}
