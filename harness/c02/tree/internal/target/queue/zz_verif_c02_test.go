package queue

// C02 — the spool survives a crash at any instant. One run of a short history
// on the real queue is logged file operation by file operation (vos); every
// crash state (prefix, torn write, un-synced data dropped; recursively inside
// the recovery run) is materialised and recovered by a fresh real queue.

import (
	"encoding/json"
	"fmt"
	"os"
	"path/filepath"
	"strings"
	"testing"
	"time"

	"github.com/foxcpp/maddy/internal/verif/vos"
	"github.com/foxcpp/maddy/internal/verif/vsched"
	"github.com/foxcpp/maddy/internal/verif/vx"
)

type c02Msg struct {
	ID     string
	From   string
	Rcpts  []string
	AbortA bool // abort after body was stored
	AbortB bool // abort before body
	Empty  bool // the message consists of a header only (0-byte body file in the spool)
}

// c02Build makes the message of a scenario entry.
func c02Build(m c02Msg) qhMsg {
	qm := qhSimpleMsg(m.ID, m.From, m.Rcpts...)
	qm.AbortAfterBody, qm.AbortBeforeBody = m.AbortA, m.AbortB
	if m.Empty {
		qm.Body = []byte{}
	}
	return qm
}

type c02Scenario struct {
	Name     string
	Msgs     []c02Msg
	Partial  bool
	MaxTries int
	// script: result class for (msg, attempt, stage, rcpt); default ok
	Script map[string]int
}

func (s c02Scenario) decide(d *qhDeliv, stage, rcpt string) int {
	if c, ok := s.Script[fmt.Sprintf("%s/%d/%s/%s", d.MsgID, d.Attempt, stage, rcpt)]; ok {
		return c
	}
	return qhOK
}

func c02Scenarios(thorough bool) []c02Scenario {
	ss := []c02Scenario{
		{Name: "S1-deliver", Msgs: []c02Msg{{ID: "m1", From: "s@example.com", Rcpts: []string{"a1@example.org"}}}, MaxTries: 3},
		{Name: "S2-partial-retry", Msgs: []c02Msg{{ID: "m1", From: "s@example.com", Rcpts: []string{"a1@example.org", "b1@example.org"}}}, MaxTries: 3,
			Script: map[string]int{"m1/1/rcpt/b1@example.org": qhT}},
		{Name: "S3-permanent-report", Msgs: []c02Msg{{ID: "m1", From: "s@example.com", Rcpts: []string{"a1@example.org", "b1@example.org"}}}, MaxTries: 3,
			Script: map[string]int{"m1/1/rcpt/b1@example.org": qhP}},
		{Name: "S4-abort", Msgs: []c02Msg{{ID: "m1", From: "s@example.com", Rcpts: []string{"a1@example.org"}, AbortA: true}, {ID: "m2", From: "s@example.com", Rcpts: []string{"a2@example.org"}}}, MaxTries: 3},
		{Name: "S5-two-messages", Msgs: []c02Msg{{ID: "m1", From: "s@example.com", Rcpts: []string{"a1@example.org"}}, {ID: "m2", From: "t@example.com", Rcpts: []string{"a2@example.org", "b2@example.org"}}}, MaxTries: 3,
			Script: map[string]int{"m2/1/body/": qhT}},
		{Name: "S6-exhaustion", Msgs: []c02Msg{{ID: "m1", From: "s@example.com", Rcpts: []string{"a1@example.org"}}}, MaxTries: 2,
			Script: map[string]int{"m1/1/start/": qhT, "m1/2/body/": qhU}},
		{Name: "S8-status-mix", Partial: true, Msgs: []c02Msg{{ID: "m1", From: "s@example.com", Rcpts: []string{"a1@example.org", "b1@example.org", "c1@example.org"}}}, MaxTries: 3,
			Script: map[string]int{"m1/1/status/b1@example.org": qhP, "m1/1/status/c1@example.org": qhT}},
		{Name: "S11-empty-body", Msgs: []c02Msg{{ID: "m1", From: "s@example.com", Rcpts: []string{"a1@example.org", "b1@example.org"}, Empty: true}}, MaxTries: 3,
			Script: map[string]int{"m1/1/rcpt/b1@example.org": qhT}},
		{Name: "S12-empty-body-per-recipient", Partial: true, Msgs: []c02Msg{{ID: "m1", From: "s@example.com", Rcpts: []string{"a1@example.org", "b1@example.org"}, Empty: true}, {ID: "m2", From: "s@example.com", Rcpts: []string{"a2@example.org"}}}, MaxTries: 2,
			Script: map[string]int{"m1/1/status/a1@example.org": qhT, "m1/2/status/a1@example.org": qhP}},
		{Name: "S9-commit-fails", Msgs: []c02Msg{{ID: "m1", From: "s@example.com", Rcpts: []string{"a1@example.org"}}}, MaxTries: 3,
			Script: map[string]int{"m1/1/commit/": qhT}},
	}
	ss = append(ss, c02Generated(thorough)...)
	if thorough {
		ss = append(ss,
			c02Scenario{Name: "S10-three-messages", Msgs: []c02Msg{
				{ID: "m1", From: "s@example.com", Rcpts: []string{"a1@example.org", "b1@example.org", "c1@example.org"}},
				{ID: "m2", From: "", Rcpts: []string{"a2@example.org"}},
				{ID: "m3", From: "s@example.com", Rcpts: []string{"a3@example.org"}, AbortB: true}}, MaxTries: 3,
				Script: map[string]int{"m1/1/rcpt/a1@example.org": qhP, "m1/1/rcpt/b1@example.org": qhT, "m1/2/body/": qhT, "m2/1/start/": qhP}},
		)
	}
	return ss
}

// c02Generated: one message, two recipients, every single scripted fault of the
// first attempt, every pair of faults of the first attempt and every
// temporary fault followed by a fault in the second attempt (quick and thorough),
// plus two first-attempt faults followed by a second-attempt fault (thorough); atomic and per-recipient targets; max_tries 2, so that the second
// failure exhausts the attempts. A null-sender variant of every single fault.
func c02Generated(thorough bool) []c02Scenario {
	var out []c02Scenario
	cn := map[int]string{qhT: "T", qhP: "P"}
	for _, partial := range []bool{false, true} {
		keys := []string{"start/", "rcpt/a1@example.org", "rcpt/b1@example.org"}
		if partial {
			keys = append(keys, "status/a1@example.org", "status/b1@example.org", "commit/")
		} else {
			keys = append(keys, "body/", "commit/")
		}
		type flt struct {
			key   string
			class int
		}
		var fs []flt
		for _, k := range keys {
			for _, c := range []int{qhT, qhP} {
				fs = append(fs, flt{k, c})
			}
		}
		mk := func(name, from string, script map[string]int) c02Scenario {
			return c02Scenario{Name: name, Partial: partial, MaxTries: 2, Script: script,
				Msgs: []c02Msg{{ID: "m1", From: from, Rcpts: []string{"a1@example.org", "b1@example.org"}}}}
		}
		tag := "G-atomic"
		if partial {
			tag = "G-partial"
		}
		for i, f := range fs {
			n1 := fmt.Sprintf("%s-1:%s=%s", tag, f.key, cn[f.class])
			out = append(out, mk(n1, "s@example.com", map[string]int{"m1/1/" + f.key: f.class}))
			if f.class == qhP || thorough {
				out = append(out, mk(n1+"-nullsender", "", map[string]int{"m1/1/" + f.key: f.class}))
			}
			for j := i + 1; j < len(fs); j++ {
				g := fs[j]
				if g.key == f.key {
					continue
				}
				out = append(out, mk(fmt.Sprintf("%s-1:%s=%s+1:%s=%s", tag, f.key, cn[f.class], g.key, cn[g.class]), "s@example.com",
					map[string]int{"m1/1/" + f.key: f.class, "m1/1/" + g.key: g.class}))
				if thorough && f.class == qhT {
					// two first-attempt faults (the first one temporary) and one second-attempt fault
					for _, h := range fs {
						out = append(out, mk(fmt.Sprintf("%s-1:%s=T+1:%s=%s+2:%s=%s", tag, f.key, g.key, cn[g.class], h.key, cn[h.class]), "s@example.com",
							map[string]int{"m1/1/" + f.key: qhT, "m1/1/" + g.key: g.class, "m1/2/" + h.key: h.class}))
					}
				}
			}
			if f.class == qhT {
				for _, g := range fs {
					out = append(out, mk(fmt.Sprintf("%s-1:%s=T+2:%s=%s", tag, f.key, g.key, cn[g.class]), "s@example.com",
						map[string]int{"m1/1/" + f.key: qhT, "m1/2/" + g.key: g.class}))
				}
			}
		}
	}
	return out
}

// c02Facts are what is known to have happened before a crash point.
type c02Facts struct {
	acked, aborted       map[string]bool
	delivered, bounced   map[string]bool
	noResend             map[string]bool // delivered, and a later attempt of the message had already begun
	startedAfterDelivery map[string]bool
	// failed terminally before the crash, report suppressed (null sender)
	suppressed map[string]bool
}

func c02FactsOf(markers []string) c02Facts {
	f := c02Facts{acked: map[string]bool{}, aborted: map[string]bool{}, delivered: map[string]bool{}, bounced: map[string]bool{}, noResend: map[string]bool{}}
	deliveredOf := map[string][]string{} // message -> recipients delivered so far
	type att struct {
		snapshot []string
		offered  map[string]bool
	}
	cur := map[string]*att{}
	closeAttempt := func(m string) {
		// A completed later attempt that did not offer an already delivered
		// recipient shows that the queue had recorded the delivery: from then on
		// the recipient must never be sent again.
		if a := cur[m]; a != nil {
			for _, r := range a.snapshot {
				if !a.offered[r] {
					f.noResend[r] = true
				}
			}
			delete(cur, m)
		}
	}
	for _, m := range markers {
		p := strings.Split(m, ":")
		switch {
		case p[0] == "ack":
			f.acked[p[1]] = true
		case p[0] == "aborted":
			f.aborted[p[1]] = true
		case p[0] == "target" && p[1] == "start":
			closeAttempt(p[2])
			cur[p[2]] = &att{snapshot: append([]string{}, deliveredOf[p[2]]...), offered: map[string]bool{}}
		case p[0] == "target" && p[1] == "offer":
			if a := cur[p[2]]; a != nil {
				a.offered[p[4]] = true
			}
		case p[0] == "target" && (p[1] == "abort" || p[1] == "commit-failed"):
			closeAttempt(p[2])
		case p[0] == "target" && p[1] == "commit":
			closeAttempt(p[2])
			for _, r := range strings.Split(p[4], ",") {
				if r != "" {
					f.delivered[r] = true
					deliveredOf[p[2]] = append(deliveredOf[p[2]], r)
				}
			}
		case p[0] == "bounce" && p[1] == "commit":
			for _, r := range strings.Split(p[4], ",") {
				if r != "" {
					f.bounced[r] = true
				}
			}
		}
	}
	return f
}

// c02Suppressed lists the recipients of null-sender messages that had failed
// terminally before the crash: no report exists for them (reports to the null
// sender are suppressed), so "reported as failed" cannot be observed; their
// terminal failure is derived from the attempts that had completed (markers)
// and the scenario's script, with the rules of the C01 reference ledger.
func c02Suppressed(sc c02Scenario, markers []string) map[string]bool {
	out := map[string]bool{}
	for _, m := range sc.Msgs {
		if m.From != "" {
			continue
		}
		pending := append([]string{}, m.Rcpts...)
		tries := map[string]int{}
		class := func(n int, stage, rcpt string) int {
			if c, ok := sc.Script[fmt.Sprintf("%s/%d/%s/%s", m.ID, n, stage, rcpt)]; ok {
				return c
			}
			return qhOK
		}
		// attempts of m whose outcome was decided before the crash
		n := 0
		for i, mk := range markers {
			p := strings.Split(mk, ":")
			if !(p[0] == "target" && p[1] == "start" && p[2] == m.ID) {
				continue
			}
			n++
			decided := class(n, "start", "") != qhOK
			for _, later := range markers[i+1:] {
				q := strings.Split(later, ":")
				if q[0] == "target" && q[2] == m.ID && (q[1] == "abort" || q[1] == "commit" || q[1] == "commit-failed") {
					decided = true
				}
				if q[0] == "target" && q[1] == "start" && q[2] == m.ID {
					break
				}
			}
			if !decided {
				break
			}
			res := map[string]int{}
			if c0 := class(n, "start", ""); c0 != qhOK {
				for _, r := range pending {
					res[r] = c0
				}
			} else {
				var acc []string
				for _, r := range pending {
					if c := class(n, "rcpt", r); c != qhOK {
						res[r] = c
					} else {
						acc = append(acc, r)
					}
				}
				allFailed := true
				for _, r := range acc {
					c := class(n, "body", "")
					if sc.Partial {
						c = class(n, "status", r)
					}
					if c != qhOK {
						res[r] = c
					} else {
						allFailed = false
					}
				}
				if cc := class(n, "commit", ""); !allFailed && cc != qhOK {
					for _, r := range acc {
						res[r] = cc
					}
				}
			}
			var next []string
			for _, r := range pending {
				c, bad := res[r]
				if !bad {
					continue
				}
				if qhRetryable(c) && tries[r]+1 < sc.MaxTries {
					tries[r]++
					next = append(next, r)
				} else {
					out[r] = true
				}
			}
			pending = next
		}
	}
	return out
}

type c02Case struct {
	Scenario string `json:"scenario"`
	Crash    int    `json:"crash_before_op"`
	Markers  int    `json:"events_before_crash"`
	Torn     int    `json:"torn_bytes"`
	Unsynced bool   `json:"unsynced"`
	Drop     string `json:"unsynced_subset,omitempty"`
	Recovery int    `json:"recovery_mode"`
	Crash2   int    `json:"second_crash_before_op"` // -1: none
	// Schedule: scheduler choices of the original run (absent: the default schedule)
	Schedule []int `json:"schedule,omitempty"`
}

type c02Run struct {
	ops     []vos.Op
	tgt     *qhTarget
	bounce  *qhTarget
	outcome string // "", "panic:...", "hang"
	endAt   time.Duration
}

func c02BounceNote(d *qhDeliv) string { return strings.Join(qhNamed(d.Body), ",") }

// c02Original runs the scenario once on an empty spool, logging every file operation.
func c02Original(dir string, sc c02Scenario) c02Run {
	tgt := &qhTarget{name: "target", partial: sc.Partial, decide: sc.decide}
	bounce := &qhTarget{name: "bounce", commitNote: c02BounceNote}
	vos.Rec = vos.NewRecorder(dir)
	defer func() { vos.Rec = nil }()
	out := qhRun(func() {
		q, err := qhNewQueue(qhQueueOpts{dir: dir, target: tgt, bounce: bounce, maxTries: sc.MaxTries})
		if err != nil {
			panic(err)
		}
		for _, m := range sc.Msgs {
			qhSubmit(q, c02Build(m))
		}
	})
	r := c02Run{ops: vos.Rec.Ops, tgt: tgt, bounce: bounce, endAt: out.EndedAt}
	if len(out.Panics) > 0 {
		r.outcome = "panic:" + vx.PanicSite(out.Panics[0])
	} else if out.Deadlock || out.StepCap {
		r.outcome = "hang"
	}
	return r
}

// c02Recover starts a fresh queue on dir and runs it to quiescence.
func c02Recover(dir string, sc c02Scenario, mode int, at time.Duration, record bool) c02Run {
	tgt := &qhTarget{name: "target", partial: sc.Partial}
	if mode == 1 {
		// the first attempt of every message after the restart fails temporarily
		tgt.decide = func(d *qhDeliv, stage, rcpt string) int {
			if stage == "start" && d.Attempt == 1 {
				return qhT
			}
			return qhOK
		}
	}
	bounce := &qhTarget{name: "bounce", commitNote: c02BounceNote}
	if record {
		vos.Rec = vos.NewRecorder(dir)
		defer func() { vos.Rec = nil }()
	}
	out := qhRunAt(at, func() {
		if _, err := qhNewQueue(qhQueueOpts{dir: dir, target: tgt, bounce: bounce, maxTries: sc.MaxTries + 1}); err != nil {
			panic(err)
		}
	})
	r := c02Run{tgt: tgt, bounce: bounce, endAt: out.EndedAt}
	if record {
		r.ops = vos.Rec.Ops
	}
	if len(out.Panics) > 0 {
		r.outcome = "panic:" + vx.PanicSite(out.Panics[0])
	} else if out.Deadlock || out.StepCap {
		r.outcome = "hang"
	}
	return r
}

// c02Judge evaluates the oracle for one recovered crash state.
func c02Judge(sc c02Scenario, facts c02Facts, rec c02Run, dir string) (string, string) {
	if rec.outcome != "" {
		return "C02:recovery-" + strings.SplitN(rec.outcome, ":", 2)[0] + strings.TrimPrefix(rec.outcome, strings.SplitN(rec.outcome, ":", 2)[0]), rec.outcome
	}
	rcptsOf := map[string]map[string]bool{}
	for _, m := range sc.Msgs {
		rcptsOf[m.ID] = map[string]bool{}
		for _, r := range m.Rcpts {
			rcptsOf[m.ID][r] = true
		}
	}
	offered := map[string]bool{}
	if c02ContentAll {
		for _, d := range rec.tgt.dels {
			if !d.BodySeen {
				continue
			}
			for _, m := range sc.Msgs {
				if m.ID != d.MsgID {
					continue
				}
				want := c02Build(m)
				if string(d.Body) != string(want.Body) {
					return "C10:crash:content-after-restart:body", fmt.Sprintf("after restart the target is handed message %s with body %q, submitted was %q (acknowledged before the stop: %v)", d.MsgID, d.Body, want.Body, facts.acked[d.MsgID])
				}
				if got, exp := d.Header.Get("Subject"), want.Header.Get("Subject"); got != exp || d.Header.Len() != want.Header.Len() {
					return "C10:crash:content-after-restart:header", fmt.Sprintf("after restart the target is handed message %s with %d header fields, Subject %q (submitted: %d fields, Subject %q; acknowledged before the stop: %v)", d.MsgID, d.Header.Len(), got, want.Header.Len(), exp, facts.acked[d.MsgID])
				}
			}
		}
		return "", ""
	}
	for _, d := range rec.tgt.dels {
		rs, known := rcptsOf[d.MsgID]
		if !known {
			return "C02:foreign-message", fmt.Sprintf("recovery attempted a message %q that was never stored", d.MsgID)
		}
		if facts.aborted[d.MsgID] {
			return "C02:aborted-message-delivered", fmt.Sprintf("message %s was aborted before the crash and is attempted after restart (recipients %v)", d.MsgID, d.Offered)
		}
		for _, r := range d.Offered {
			if !rs[r] {
				return "C02:foreign-recipient", fmt.Sprintf("recovery offered %q for message %s whose recipients are %v", r, d.MsgID, rcptsOf[d.MsgID])
			}
			if facts.noResend[r] {
				return "C02:resent-after-later-attempt", fmt.Sprintf("%s of %s was delivered before the crash and a later attempt had already begun, yet it is sent again after restart", r, d.MsgID)
			}
			offered[r] = true
		}
		// an acknowledged message reaches the target with the content that was accepted
		if facts.acked[d.MsgID] && d.BodySeen {
			want := qhSimpleMsg(d.MsgID, "x")
			for _, m := range sc.Msgs {
				if m.ID == d.MsgID {
					want = c02Build(m)
				}
			}
			if string(d.Body) != string(want.Body) {
				return "C02:acknowledged-content-damaged:body", fmt.Sprintf("message %s was acknowledged before the crash; after restart its body is %q, accepted was %q", d.MsgID, d.Body, want.Body)
			}
			if got, exp := d.Header.Get("Subject"), want.Header.Get("Subject"); got != exp || d.Header.Len() != want.Header.Len() {
				return "C02:acknowledged-content-damaged:header", fmt.Sprintf("message %s was acknowledged before the crash; after restart its header has %d fields, Subject %q (accepted: %d fields, Subject %q)", d.MsgID, d.Header.Len(), got, want.Header.Len(), exp)
			}
		}
	}
	if len(rec.tgt.viol) > 0 {
		return "C02:recovery-typestate", strings.Join(rec.tgt.viol, "; ")
	}
	bouncedAfter := map[string]bool{}
	for _, d := range rec.bounce.dels {
		for _, r := range qhNamed(d.Body) {
			bouncedAfter[r] = true
		}
	}
	for _, m := range sc.Msgs {
		if !facts.acked[m.ID] {
			continue
		}
		for _, r := range m.Rcpts {
			if !(facts.delivered[r] || facts.bounced[r] || offered[r] || bouncedAfter[r] || facts.suppressed[r]) {
				return "C02:accepted-mail-lost", fmt.Sprintf("message %s was acknowledged before the crash; recipient %s was neither delivered nor reported before it and is not attempted after restart (spool after recovery: %v)", m.ID, r, qhSpoolFiles(dir))
			}
		}
	}
	for _, f := range qhSpoolFiles(dir) {
		if strings.HasSuffix(f, ".meta_broken") {
			return "C02:meta-marked-broken", "recovery left " + f
		}
	}
	return "", ""
}

func c02Describe(ops []vos.Op, c c02Case) string {
	s := fmt.Sprintf("crash after %d logged events, before file operation #%d (%s)", c.Markers, c.Crash, vos.Describe(ops, c.Crash))
	if c.Torn > 0 {
		s += fmt.Sprintf(", first %d bytes of that write on disk", c.Torn)
	}
	if c.Unsynced && c.Drop == "" {
		s += ", un-synced file data dropped"
	}
	if c.Drop != "" {
		s += ", un-synced data of " + c.Drop + " dropped"
	}
	return s
}

// c02ContentAll: the run belongs to C10 (part "crash"): only the content of what
// recovery hands to the target is judged, for every message, acknowledged or not
var c02ContentAll bool

func TestVerifC02(t *testing.T) { c02Main(t, "C02") }

// TestVerifC10Crash (C10, part "crash"): the same crash states, judged by C10's
// clause "byte-for-byte the header and body it accepted ... after a restart": a
// message that reaches the target after recovery carries exactly the submitted
// content, also when the stop hit the middle of its acceptance.
func TestVerifC10Crash(t *testing.T) {
	c02ContentAll = true
	c02Main(t, "C10")
}

func c02Main(t *testing.T, prop string) {
	r := vx.Start(prop, "crash")
	defer r.Finish()
	scratch := os.Getenv("VERIF_SCRATCH")
	if scratch == "" {
		scratch = os.TempDir()
	}
	scratch = filepath.Join(scratch, fmt.Sprintf("c02-%d", r.Shard))
	os.MkdirAll(scratch, 0o755)
	defer os.RemoveAll(scratch)
	r.Rule("each scenario (8-9 hand-written ones: 1-3 messages, aborts, exhaustion; plus generated ones: one message, two recipients, atomic / per-recipient target, every single scripted fault of the first attempt incl. null-sender variants, every pair of first-attempt faults, every temporary fault followed by a second-attempt fault, and in the thorough tier two first-attempt faults followed by a second-attempt fault; 1-3 messages, 1-3 recipients, scripted temporary/permanent failures at recipient/body/status/commit stage, aborts, max_tries exhaustion) runs once on the real queue with every mutating file operation logged; for every crash point i (before each operation) the states prefix(i), torn(i,k) for k in {1, n/2, n-1} (thorough: also every 8th byte), unsynced(i) and unsynced(i, S) for every subset S of the files holding un-synced data are materialised and recovered by a fresh real queue (two recovery scripts: accept all / first attempt fails temporarily), recursively for every crash point inside the recovery run (depth 2); oracle: acknowledged mail delivered, reported or re-attempted; aborted mail never delivered; only stored recipients attempted; no re-send once a later attempt had begun; no panic, hang or .meta_broken. Non-trivial: distinct crash states whose spool content differs from the previous crash state of the same scenario")
	r.Assume("a recipient of a null-sender message that failed terminally before the crash (derived from the completed attempts and the script) counts as reported: reports to the null sender are suppressed")
	r.Assume("directory operations (create, rename, remove) are atomic, ordered and durable; file data is durable only after Sync in the 'unsynced' variant")
	if c02ContentAll {
		r.Rule("C10 part crash: the crash states of the C02 exploration (see that rule text below), judged only by: every message recovery hands to the target carries byte-for-byte the submitted header and body, whether or not its acceptance had completed before the stop")
	} else {
		r.Assume("content of messages that were never acknowledged is not judged (C10 part crash judges it)")
	}
	scs := c02Scenarios(vx.Thorough())
	var replay *c02Case
	if rp := r.Replay(); rp != nil {
		replay = &c02Case{}
		if json.Unmarshal(rp, replay) != nil {
			r.HarnessError("bad replay")
			return
		}
	} else if r.Replaying() {
		return
	}
	depth2 := map[string]bool{"S1-deliver": true, "S2-partial-retry": true, "S3-permanent-report": true, "S4-abort": true}
	idx := 0
	var crashStates, tornStates, unsyncedStates, recoveries, depth2Recoveries int64
	// crashEnum enumerates the crash states of one recorded run (the default schedule or an
	// alternative interleaving of acceptance and delivery) and judges every recovery.
	crashEnum := func(sc c02Scenario, orig c02Run, sched []int) {
		n := 0
		for _, o := range orig.ops {
			if o.Kind != "marker" {
				n++
			}
		}
		r.Bound(sc.Name+".file_ops", n)
		prevSig := ""
		// A crash can hit between any two logged events: positions range over the
		// whole log (file operations and markers such as "report committed"), the
		// spool state is given by the operations before the position, the known
		// facts by the markers before it.
		type cpos struct {
			i       int // file operations completed
			markers []string
			nextOp  bool // the next log entry is a file operation (torn-write variants apply)
		}
		var positions []cpos
		{
			opsDone := 0
			var ms []string
			for p := 0; p <= len(orig.ops); p++ {
				next := p < len(orig.ops) && orig.ops[p].Kind != "marker"
				positions = append(positions, cpos{opsDone, append([]string{}, ms...), next})
				if p < len(orig.ops) {
					if orig.ops[p].Kind == "marker" {
						ms = append(ms, orig.ops[p].Note)
					} else {
						opsDone++
					}
				}
			}
		}
		r.Bound(sc.Name+".crash_positions", len(positions))
		for _, cp := range positions {
			i := cp.i
			type variant struct {
				torn     int
				unsynced bool
				drop     string // "": all un-synced files (unsynced) ; else the subset of un-synced files that lose their data, comma separated
			}
			vs := []variant{{0, false, ""}, {0, true, ""}}
			// every proper, non-empty subset of the files holding un-synced data
			if uf := vos.UnsyncedFiles(nil, orig.ops, i); len(uf) > 1 && len(uf) <= 4 {
				for mask := 1; mask < (1<<len(uf))-1; mask++ {
					var sub []string
					for b, f := range uf {
						if mask&(1<<b) != 0 {
							sub = append(sub, f)
						}
					}
					vs = append(vs, variant{0, true, strings.Join(sub, ",")})
				}
			}
			if wl := vos.WriteLen(orig.ops, i); wl > 1 && cp.nextOp {
				seenK := map[int]bool{}
				cuts := []int{1, wl / 2, wl - 1}
				if vx.Thorough() {
					for k := 8; k < wl; k += 8 {
						cuts = append(cuts, k)
					}
				}
				for _, k := range cuts {
					if k > 0 && !seenK[k] {
						seenK[k] = true
						vs = append(vs, variant{k, false, ""})
					}
				}
			}
			for _, v := range vs {
				for mode := 0; mode < 2; mode++ {
					idx++
					c := c02Case{Scenario: sc.Name, Crash: i, Markers: len(cp.markers), Torn: v.torn, Unsynced: v.unsynced, Drop: v.drop, Recovery: mode, Crash2: -1, Schedule: sched}
					if replay != nil {
						if replay.Crash != c.Crash || replay.Markers != c.Markers || replay.Torn != c.Torn || replay.Unsynced != c.Unsynced || replay.Drop != c.Drop || replay.Recovery != c.Recovery {
							continue
						}
					} else if !r.Mine(idx) {
						continue
					}
					di := filepath.Join(scratch, "crash")
					os.RemoveAll(di)
					var content map[string][]byte
					var err error
					if v.drop != "" {
						dm := map[string]bool{}
						for _, f := range strings.Split(v.drop, ",") {
							dm[f] = true
						}
						content, err = vos.MaterialiseDropping(di, nil, orig.ops, i, dm)
					} else {
						content, err = vos.Materialise(di, nil, orig.ops, i, v.torn, v.unsynced)
					}
					if err != nil {
						r.HarnessError("materialise: " + err.Error())
						return
					}
					facts := c02FactsOf(cp.markers)
					facts.suppressed = c02Suppressed(sc, cp.markers)
					wantDepth2 := (depth2[sc.Name] || len(sc.Msgs) == 1 || vx.Thorough()) && v.torn == 0
					rec := c02Recover(di, sc, mode, orig.endAt+time.Hour, wantDepth2)
					r.Eval()
					recoveries++
					switch {
					case v.torn > 0:
						tornStates++
					case v.unsynced:
						unsyncedStates++
					default:
						crashStates++
					}
					sig := fmt.Sprint(len(content))
					for _, nme := range vos.Names(content) {
						sig += fmt.Sprintf("|%s:%d", nme, len(content[nme]))
					}
					if mode == 0 && sig != prevSig {
						r.Nontrivial(sc.Name + "/" + fmt.Sprint(i, v) + sig)
						prevSig = sig
					}
					if fp, detail := c02Judge(sc, facts, rec, di); fp != "" {
						r.Violation(fp, fmt.Sprintf("scenario %s, %s, recovery script %d\n%s\nspool at crash: %v", sc.Name, c02Describe(orig.ops, c), mode, detail, vos.Names(content)), c)
						continue
					}
					r.Outcome(fmt.Sprintf("%s:recovered-deliveries=%d", sc.Name, len(rec.tgt.dels)))
					if idx%97 == 0 {
						r.Sample(map[string]any{"case": c, "what": c02Describe(orig.ops, c), "spool": vos.Names(content), "deliveries_after_restart": len(rec.tgt.dels)})
					}
					if !wantDepth2 || mode != 0 {
						continue
					}
					// depth 2: crash inside the recovery run
					n2 := 0
					for _, o := range rec.ops {
						if o.Kind != "marker" {
							n2++
						}
					}
					for j := 0; j < n2; j++ {
						if replay != nil && replay.Crash2 >= 0 && replay.Crash2 != j {
							continue
						}
						dj := filepath.Join(scratch, "crash2")
						os.RemoveAll(dj)
						if _, err := vos.Materialise(dj, content, rec.ops, j, 0, false); err != nil {
							r.HarnessError("materialise2: " + err.Error())
							return
						}
						f2 := c02FactsOf(append(append([]string{}, cp.markers...), vos.MarkersBefore(rec.ops, j)...))
						f2.suppressed = facts.suppressed // recovery scripts never fail a recipient terminally
						rec2 := c02Recover(dj, sc, 0, rec.endAt+2*time.Hour, false)
						r.Eval()
						depth2Recoveries++
						c2 := c
						c2.Crash2 = j
						if fp, detail := c02Judge(sc, f2, rec2, dj); fp != "" {
							r.Violation(fp+":depth2", fmt.Sprintf("scenario %s, %s, then crash in the recovery run before its file operation #%d (%s)\n%s", sc.Name, c02Describe(orig.ops, c), j, vos.Describe(rec.ops, j), detail), c2)
						}
					}
				}
			}
		}
	}
	for _, sc := range scs {
		if replay != nil && replay.Scenario != sc.Name {
			continue
		}
		d0 := filepath.Join(scratch, "orig")
		os.RemoveAll(d0)
		os.MkdirAll(d0, 0o755)
		orig := c02Original(d0, sc)
		if orig.outcome != "" || len(orig.tgt.viol) > 0 {
			r.Violation("C02:original-run:"+orig.outcome, fmt.Sprintf("scenario %s: %s %v", sc.Name, orig.outcome, orig.tgt.viol), c02Case{Scenario: sc.Name, Crash: -1, Crash2: -1})
			continue
		}
		if replay == nil || replay.Schedule == nil {
			crashEnum(sc, orig, nil)
		}
		// alternative schedules: every interleaving of the accepting thread and the delivery
		// threads within one pre-emption; each distinct operation log gets its own crash enumeration
		if len(sc.Msgs) >= 2 && (vx.Thorough() || sc.Name == "S5-two-messages" || (replay != nil && replay.Schedule != nil)) {
			c02Schedules(r, d0, sc, orig, replay, crashEnum)
		}
	}
	r.Count("crash_states", crashStates)
	r.Count("torn_states", tornStates)
	r.Count("unsynced_states", unsyncedStates)
	r.Count("recoveries", recoveries)
	r.Count("depth2_recoveries", depth2Recoveries)
}


// c02Schedules explores the schedules of the original run of a multi-message scenario
// (pre-emption bound 1) and hands every run whose operation log differs from the ones
// seen so far to the crash enumeration.
func c02Schedules(r *vx.Run, d0 string, sc c02Scenario, def c02Run, replay *c02Case, crashEnum func(c02Scenario, c02Run, []int)) {
	sig := func(ops []vos.Op) string {
		var sb strings.Builder
		for _, o := range ops {
			fmt.Fprintf(&sb, "%s|%s|%s|%s|%d;", o.Kind, o.Path, o.To, o.Note, len(o.Data))
		}
		return sb.String()
	}
	seen := map[string]bool{sig(def.ops): true}
	var tgt, bounce *qhTarget
	mk := func() vsched.Scenario {
		os.RemoveAll(d0)
		os.MkdirAll(d0, 0o755)
		tgt = &qhTarget{name: "target", partial: sc.Partial, decide: sc.decide}
		bounce = &qhTarget{name: "bounce", commitNote: c02BounceNote}
		vos.Rec = vos.NewRecorder(d0)
		return vsched.Scenario{
			Root: func() {
				q, err := qhNewQueue(qhQueueOpts{dir: d0, target: tgt, bounce: bounce, maxTries: sc.MaxTries})
				if err != nil {
					panic(err)
				}
				for _, m := range sc.Msgs {
					qhSubmit(q, c02Build(m))
				}
			},
			Check: func(o *vsched.Outcome) (string, string) { return "", "" },
		}
	}
	opt := vsched.Options{KeepEnv: true, MaxSteps: 30000}
	if replay != nil && replay.Schedule != nil {
		e := &vsched.Explorer{Opt: opt}
		out, _, _ := e.Replay(mk, replay.Schedule)
		run := c02Run{ops: vos.Rec.Ops, tgt: tgt, bounce: bounce, endAt: out.EndedAt}
		vos.Rec = nil
		crashEnum(sc, run, replay.Schedule)
		return
	}
	e := &vsched.Explorer{Bound: 1, Opt: opt, MaxExecs: 400}
	var runs []c02Run
	var scheds [][]int
	e.Explore(mk, func(vsched.Found) {}, func(o *vsched.Outcome, fp string) {
		ops := vos.Rec.Ops
		vos.Rec = nil
		r.Count("original_run_schedules", 1)
		if len(o.Panics) > 0 || o.Deadlock || o.StepCap {
			r.Violation("C02:original-run:schedule", fmt.Sprintf("scenario %s: panics=%v deadlock=%v", sc.Name, o.Panics, o.Deadlock), c02Case{Scenario: sc.Name, Crash: -1, Crash2: -1})
			return
		}
		k := sig(ops)
		if seen[k] {
			return
		}
		seen[k] = true
		var ch []int
		for _, p := range o.Points {
			ch = append(ch, p.Chosen)
		}
		runs = append(runs, c02Run{ops: ops, tgt: tgt, bounce: bounce, endAt: o.EndedAt})
		scheds = append(scheds, ch)
	})
	r.Bound(sc.Name+".distinct_operation_logs_of_alternative_schedules", len(runs))
	if e.Capped {
		r.Cap(sc.Name + ": schedule exploration of the original run capped at 400 executions")
	}
	for i := range runs {
		crashEnum(sc, runs[i], scheds[i])
	}
}
