package smtp

// C15 (part "submission") — who is "the authenticated user"? The entitlement
// check trusts the identity the SASL layer hands to the session. Here complete
// submission sessions (AUTH in every shape, MAIL FROM, message) run on the real
// submission endpoint with the real check.authorize_sender and the real SASL
// layer over a two-account provider. Oracle: a message is accepted only if the
// account whose password was verified is entitled (identity mapping) to the
// envelope sender and to the header author.

import (
	"encoding/base64"
	"encoding/json"
	"fmt"
	"strings"
	"testing"

	"github.com/foxcpp/maddy/framework/config"
	"github.com/foxcpp/maddy/framework/module"
	_ "github.com/foxcpp/maddy/internal/check/authorize_sender"
	"github.com/foxcpp/maddy/internal/verif/vx"
)

type c15sProvider struct{}

var c15sCreds = map[string]string{"alice@example.org": "alicepw", "bob@example.org": "bobpw"}

func (c15sProvider) Name() string           { return "verif_auth" }
func (c15sProvider) InstanceName() string   { return "vauth15" }
func (c15sProvider) Init(*config.Map) error { return nil }
func (c15sProvider) AuthPlain(u, p string) error {
	if pw, ok := c15sCreds[u]; ok && pw == p && p != "" {
		return nil
	}
	return module.ErrUnknownCredentials
}

type c15sCase struct {
	Mech    string `json:"mech"` // PLAIN | LOGIN | none
	Authzid string `json:"authzid"`
	User    string `json:"user"`
	Pass    string `json:"pass"`
	Mail    string `json:"mail_from"`
	From    string `json:"from_header"`
	// Place: where check.authorize_sender is configured: "" = top level of the endpoint,
	// "destination" = inside the destination block (its sender stage then runs at the first RCPT)
	Place string `json:"check_placement,omitempty"`
	// RcptTries: how often the client repeats RCPT TO after a refusal (1 = no retry)
	RcptTries int `json:"rcpt_tries,omitempty"`
}

var c15sRegistered bool

func c15sRun(c c15sCase) (fp, detail, outcome string) {
	ehRegister()
	if !c15sRegistered {
		module.RegisterInstance(c15sProvider{}, nil)
		c15sRegistered = true
	}
	ehT1.Reset()
	ehT1.Fault = nil
	chk := config.Node{Name: "check", Children: []config.Node{{Name: "authorize_sender", Children: []config.Node{
		{Name: "prepare_email", Args: []string{"identity"}},
		{Name: "user_to_email", Args: []string{"identity"}},
	}}}}
	nodes := []config.Node{
		{Name: "auth", Args: []string{"&vauth15"}},
		{Name: "sasl_login", Args: []string{"yes"}},
	}
	if c.Place == "destination" {
		nodes = append(nodes,
			config.Node{Name: "destination", Args: []string{"example.net"}, Children: []config.Node{chk, {Name: "deliver_to", Args: []string{"&vt1"}}}},
			config.Node{Name: "default_destination", Children: []config.Node{{Name: "reject"}}})
	} else {
		nodes = append(nodes, chk, config.Node{Name: "deliver_to", Args: []string{"&vt1"}})
	}
	endp, l, err := ehEndpoint("submission", nodes)
	if err != nil {
		return "HARNESS:init", err.Error(), ""
	}
	defer ehStop(endp, l)
	cl := l.dial()
	defer cl.c.Close()
	if g, err := cl.read(); err != nil || g.Code != 220 {
		return "HARNESS:greeting", fmt.Sprint(g, err), ""
	}
	var log []string
	say := func(cmd string) ehReply {
		rep, _ := cl.cmd(cmd)
		shown := cmd
		if len(shown) > 60 {
			shown = shown[:60] + "..."
		}
		log = append(log, "C: "+shown, "S: "+rep.String())
		return rep
	}
	say("EHLO client.example")
	authOK := false
	switch c.Mech {
	case "PLAIN":
		authOK = say("AUTH PLAIN "+c14b64x(c.Authzid+"\x00"+c.User+"\x00"+c.Pass)).Code == 235
	case "LOGIN":
		if say("AUTH LOGIN").Code == 334 && say(c14b64x(c.User)).Code == 334 {
			authOK = say(c14b64x(c.Pass)).Code == 235
		}
	}
	verified := "" // the account whose password was verified
	if pw, ok := c15sCreds[c.User]; ok && pw == c.Pass && c.Mech != "none" {
		verified = c.User
	}
	if authOK && verified == "" {
		return "C15:submission:authenticated-without-valid-credentials", strings.Join(log, "\n"), ""
	}
	accepted := false
	rcptOK := false
	if say("MAIL FROM:<"+c.Mail+">").Class() == 2 {
		tries := c.RcptTries
		if tries < 1 {
			tries = 1
		}
		for i := 0; i < tries && !rcptOK; i++ {
			rcptOK = say("RCPT TO:<rcpt@example.net>").Class() == 2
		}
	}
	if rcptOK {
		if say("DATA").Code == 354 {
			cl.write("From: <" + c.From + ">\r\nSubject: x\r\n\r\nhi\r\n.\r\n")
			rep, _ := cl.read()
			log = append(log, "C: <message>", "S: "+rep.String())
			accepted = rep.Class() == 2
		}
	}
	say("QUIT")
	cl.waitClosed()
	ds, _ := ehT1.Snapshot()
	delivered := false
	for _, d := range ds {
		if d.Closed == "commit" && d.CommitOK {
			delivered = true
		}
	}
	if accepted != delivered {
		return "HARNESS:accept-vs-delivery", fmt.Sprintf("accepted=%v delivered=%v\n%s", accepted, delivered, strings.Join(log, "\n")), ""
	}
	if !accepted {
		return "", "", fmt.Sprintf("refused (auth ok=%v)", authOK)
	}
	entitled := func(addr string) bool { return verified != "" && strings.EqualFold(addr, verified) }
	switch {
	case verified == "":
		return "C15:submission:unauthenticated-client-accepted", strings.Join(log, "\n"), ""
	case !entitled(c.Mail):
		return "C15:submission:envelope-sender-not-entitled", fmt.Sprintf("the password of %q was verified; the message was accepted with MAIL FROM:<%s>\n%s", verified, c.Mail, strings.Join(log, "\n")), ""
	case !entitled(c.From):
		return "C15:submission:author-not-entitled", fmt.Sprintf("the password of %q was verified; the message was accepted with From: <%s>\n%s", verified, c.From, strings.Join(log, "\n")), ""
	}
	return "", "", "accepted for the verified account"
}

func c14b64x(s string) string { return base64.StdEncoding.EncodeToString([]byte(s)) }

func TestVerifC15Submission(t *testing.T) {
	r := vx.Start("C15", "submission")
	defer r.Finish()
	r.Rule("complete sessions on the real submission endpoint (real SASL layer, two-account provider, real check.authorize_sender with the identity mapping): AUTH {none, PLAIN with authorization identity absent / same / the other account / unknown, LOGIN} x credentials {right, wrong password; both accounts} x MAIL FROM {own, other account, outsider} x From {own, other account} x check placed at the top level or inside the destination block (RCPT sent once or repeated after a refusal); oracle: a message is accepted only if the account whose password was verified is entitled to the envelope sender and the author; without verified credentials nothing is accepted. Non-trivial: all cases")
	if rp := r.Replay(); rp != nil {
		var c c15sCase
		if json.Unmarshal(rp, &c) != nil || c.Mech == "" {
			return
		}
		fp, detail, _ := c15sRun(c)
		r.Eval()
		if strings.HasPrefix(fp, "HARNESS:") {
			r.HarnessError(fp + " " + detail)
		} else if fp != "" {
			r.Violation(fp, detail, c)
		}
		return
	}
	if r.Replaying() {
		return
	}
	type auth struct{ mech, authzid, user, pass string }
	var auths []auth
	auths = append(auths, auth{"none", "", "", ""})
	for _, u := range []string{"alice@example.org", "bob@example.org"} {
		other := "bob@example.org"
		if u == other {
			other = "alice@example.org"
		}
		for _, pw := range []string{c15sCreds[u], "wrong", c15sCreds[other]} {
			for _, az := range []string{"", u, other, "nobody@example.org", strings.ToUpper(u)} {
				auths = append(auths, auth{"PLAIN", az, u, pw})
			}
			auths = append(auths, auth{"LOGIN", "", u, pw})
		}
	}
	idx := 0
	for _, a := range auths {
		for _, mf := range []string{"alice@example.org", "bob@example.org", "mallory@evil.example"} {
			for _, fr := range []string{"alice@example.org", "bob@example.org"} {
				idx++
				if !r.Mine(idx) {
					continue
				}
				for _, pl := range []struct {
					place string
					tries int
				}{{"", 1}, {"destination", 1}, {"destination", 3}} {
					c := c15sCase{Mech: a.mech, Authzid: a.authzid, User: a.user, Pass: a.pass, Mail: mf, From: fr, Place: pl.place, RcptTries: pl.tries}
					if pl.place != "" && !(a.mech == "PLAIN" && a.authzid == "" || a.mech == "none") {
						continue // the placement variants go with the plain AUTH shapes
					}
					fp, detail, oc := c15sRun(c)
					r.Eval()
					r.Nontrivial(vx.JSON(c))
					if strings.HasPrefix(fp, "HARNESS:") {
						r.HarnessError(fp + " " + detail)
						return
					}
					if fp != "" {
						r.Violation(fp, detail+"\ncase: "+vx.JSON(c), c)
						continue
					}
					r.Outcome(oc)
					if idx%17 == 0 {
						r.Sample(c)
					}
				}
			}
		}
	}
}
