package authorize_sender

// C15 — authenticated users can only send as addresses they are entitled to.
// Exhaustive product of entitlement tables x normalisation x users x MAIL FROM
// x From/Sender header layouts through the real check.authorize_sender
// (initialised from configuration nodes), against a reference entitlement
// function. Rejections are always allowed; every acceptance must be justified.

import (
	"bufio"
	"context"
	"encoding/json"
	"fmt"
	"net/mail"
	"regexp"
	"strings"
	"testing"

	"github.com/emersion/go-message/textproto"
	"github.com/foxcpp/maddy/framework/config"
	"github.com/foxcpp/maddy/framework/module"
	"github.com/foxcpp/maddy/internal/table"
	"github.com/foxcpp/maddy/internal/verif/vx"
	"golang.org/x/net/idna"
	"golang.org/x/text/unicode/norm"
)

type c15Table struct {
	name string
	m    map[string][]string
}

func (t *c15Table) Name() string           { return "verif_table" }
func (t *c15Table) InstanceName() string   { return t.name }
func (t *c15Table) Init(*config.Map) error { return nil }
func (t *c15Table) Lookup(ctx context.Context, k string) (string, bool, error) {
	if v := t.m[k]; len(v) > 0 {
		return v[0], true, nil
	}
	return "", false, nil
}
func (t *c15Table) LookupMulti(ctx context.Context, k string) ([]string, error) { return t.m[k], nil }

var (
	c15U2E  = &c15Table{name: "vu2e"}
	c15Prep = &c15Table{name: "vprep"}
)

type c15Cfg struct {
	Name string              `json:"name"`
	U2E  map[string][]string `json:"user_to_email"` // nil: identity
	Prep map[string][]string `json:"prepare_email"` // nil: identity
	Norm string              `json:"normalize"`
	// Actions: "" = default actions; "custom-replies" = every action directive is "reject" with its own SMTP reply
	Actions string `json:"actions,omitempty"`
	// RegexU2E: user_to_email is a real table.regexp {expression, replacement} with case_insensitive yes
	// (and the default full_match): users matching the whole expression get the replacement
	RegexU2E []string `json:"user_to_email_regexp,omitempty"`
}

type c15Case struct {
	Cfg      c15Cfg `json:"config"`
	AuthUser string `json:"auth_user"`
	MailFrom string `json:"mail_from"`
	Header   string `json:"header"`
}

func c15Key(a string) string {
	i := strings.LastIndex(a, "@")
	if i < 0 {
		return norm.NFC.String(strings.ToLower(norm.NFC.String(a)))
	}
	d, err := idna.ToUnicode(strings.ToLower(a[i+1:]))
	if err != nil {
		d = a[i+1:]
	}
	return norm.NFC.String(strings.ToLower(norm.NFC.String(a[:i]))) + "@" + norm.NFC.String(strings.ToLower(norm.NFC.String(d)))
}

// c15KeyCP: the case-preserving e-mail normalisation (precis_email): the local part keeps its
// letter case (NFC only), the domain is compared as for c15Key; "" if s is not an address.
func c15KeyCP(a string) string {
	i := strings.LastIndex(a, "@")
	if i <= 0 || i == len(a)-1 {
		return ""
	}
	d, err := idna.ToUnicode(strings.ToLower(a[i+1:]))
	if err != nil {
		d = a[i+1:]
	}
	return norm.NFC.String(a[:i]) + "@" + norm.NFC.String(strings.ToLower(norm.NFC.String(d)))
}

// c15Entitled: the reference entitlement function.
func c15Entitled(cfg c15Cfg, user, addr string) bool {
	if user == "" || addr == "" {
		return false
	}
	u, a := user, addr
	if cfg.Norm == "precis_email" {
		u, a = c15KeyCP(user), c15KeyCP(addr)
		if u == "" || a == "" {
			return false // the normalisation refuses what is not an address
		}
	} else if cfg.Norm != "noop" {
		u, a = c15Key(user), c15Key(addr)
	}
	prepared := []string{a}
	if cfg.Prep != nil {
		if p := cfg.Prep[a]; len(p) > 0 {
			prepared = p
		}
	}
	entries := []string{u}
	if cfg.U2E != nil {
		entries = cfg.U2E[u]
	}
	if cfg.RegexU2E != nil {
		entries = nil
		if regexp.MustCompile("(?i)^(?:" + cfg.RegexU2E[0] + ")$").MatchString(u) {
			entries = []string{cfg.RegexU2E[1]}
		}
	}
	for _, p := range prepared {
		dom := ""
		if i := strings.LastIndex(p, "@"); i >= 0 {
			dom = p[i+1:]
		}
		for _, e := range entries {
			if e == p || e == "*" || (dom != "" && e == dom) {
				return true
			}
		}
	}
	return false
}

func c15Eval(r *vx.Run, c c15Case) {
	c15U2E.m, c15Prep.m = c.Cfg.U2E, c.Cfg.Prep
	nodes := []config.Node{{Name: "auth_normalize", Args: []string{c.Cfg.Norm}}, {Name: "from_normalize", Args: []string{c.Cfg.Norm}}}
	if c.Cfg.U2E != nil {
		nodes = append(nodes, config.Node{Name: "user_to_email", Args: []string{"&vu2e"}})
	}
	if c.Cfg.Prep != nil {
		nodes = append(nodes, config.Node{Name: "prepare_email", Args: []string{"&vprep"}})
	}
	if c.Cfg.Actions == "custom-replies" {
		nodes = append(nodes,
			config.Node{Name: "unauth_action", Args: []string{"reject", "530", "5.7.0", "authentication required"}},
			config.Node{Name: "no_match_action", Args: []string{"reject", "550", "5.7.1", "not your address"}},
			config.Node{Name: "err_action", Args: []string{"reject", "451", "4.7.0", "try later"}})
	}
	m, _ := New("check.authorize_sender", "verif", nil, nil)
	chk := m.(*Check)
	if err := chk.Init(config.NewMap(map[string]interface{}{}, config.Node{Children: nodes})); err != nil {
		r.HarnessError("check init: " + err.Error())
		return
	}
	if c.Cfg.RegexU2E != nil {
		mod, err := table.NewRegexp("table.regexp", "", nil, c.Cfg.RegexU2E)
		if err != nil {
			r.HarnessError("regexp table: " + err.Error())
			return
		}
		if err := mod.(*table.Regexp).Init(config.NewMap(nil, config.Node{Children: []config.Node{{Name: "case_insensitive", Args: []string{"yes"}}}})); err != nil {
			r.HarnessError("regexp table init: " + err.Error())
			return
		}
		chk.userToEmail = mod.(*table.Regexp)
	}
	hdr, err := textproto.ReadHeader(bufio.NewReader(strings.NewReader(c.Header + "\r\n")))
	if err != nil {
		return
	}
	r.Eval()
	meta := &module.MsgMetadata{ID: "c15", Conn: &module.ConnState{AuthUser: c.AuthUser}}
	accepted := false
	if p := vx.Catch(func() {
		st, err := chk.CheckStateForMsg(context.Background(), meta)
		if err != nil {
			return
		}
		r1 := st.CheckSender(context.Background(), c.MailFrom)
		r2 := st.CheckBody(context.Background(), hdr, nil)
		st.Close()
		// what the pipeline acts on: a result that carries a reason but neither flag is
		// logged and otherwise ignored, the message goes on
		accepted = !r1.Reject && !r1.Quarantine && !r2.Reject && !r2.Quarantine
	}); p != nil {
		r.Violation("C15:panic", fmt.Sprintf("%v on %s", p, vx.JSON(c)), c)
		return
	}
	if !accepted {
		r.Outcome("refused")
		return
	}
	r.Outcome("accepted")
	r.Nontrivial(vx.JSON(c))
	bad := func(kind, f string, a ...any) {
		r.Violation("C15:"+kind, fmt.Sprintf(f, a...)+"\ncase: "+vx.JSON(c), c)
	}
	if c.AuthUser == "" {
		bad("unauthenticated-accepted", "message accepted without authentication")
		return
	}
	if !c15Entitled(c.Cfg, c.AuthUser, c.MailFrom) {
		bad("envelope-sender-not-entitled", "user %q is not entitled to MAIL FROM %q", c.AuthUser, c.MailFrom)
		return
	}
	// header author: every address of every From field, or the Sender address
	var authors []string
	nFields := 0
	for f := hdr.FieldsByKey("From"); f.Next(); {
		nFields++
		l, err := mail.ParseAddressList(f.Value())
		if err != nil {
			bad("unparsable-from-accepted", "From field %q does not parse", f.Value())
			return
		}
		for _, a := range l {
			authors = append(authors, a.Address)
		}
	}
	if len(authors) == 0 {
		bad("no-author-accepted", "message without an author address accepted")
		return
	}
	allEnt := true
	notEnt := ""
	for _, a := range authors {
		if !c15Entitled(c.Cfg, c.AuthUser, a) {
			allEnt = false
			notEnt = a
		}
	}
	if allEnt {
		return
	}
	if s := hdr.Get("Sender"); s != "" {
		if sa, err := mail.ParseAddress(s); err == nil && c15Entitled(c.Cfg, c.AuthUser, sa.Address) {
			return
		}
	}
	kind := "author-not-entitled"
	if nFields > 1 {
		kind = "author-not-entitled:several-from-fields"
	}
	bad(kind, "user %q is not entitled to the author address %q (From fields: %d) and no entitled Sender is present", c.AuthUser, notEnt, nFields)
}

func TestVerifC15(t *testing.T) {
	r := vx.Start("C15", "entitlement")
	defer r.Finish()
	module.RegisterInstance(c15U2E, nil)
	module.RegisterInstance(c15Prep, nil)
	r.Rule("entitlement tables {identity, address lists, domain entry, '*', a real case-insensitive table.regexp} x prepare_email {identity, alias map} x normalisation {auto, noop, precis_email (case-preserving)} x action directives {default, reject with a custom SMTP reply} x authenticated user {entitled, other, none; case / NFD spellings} x MAIL FROM {entitled, alias, spelling variants incl. A-label, not entitled, a sharp-s domain next to its ss twin} x header layouts {single From, two addresses in one From, two From fields in both orders, group syntax, display name containing an address, RFC 2047 display name, folded field, missing From, an empty From field before / after a filled one} x Sender {absent, entitled, not entitled}; thorough tier: more addresses (subdomain, suffix-confusable domains, plus-tag, upper-case alias), layouts (bare addr-spec, comments, three From fields, group followed by an address, folded lists, empty first line) and Sender shapes (display name, two Sender fields, upper-case); each through the real check.authorize_sender initialised from configuration (CheckSender + CheckBody); a message counts as accepted when neither result carries the reject or quarantine flag (what the pipeline acts on); oracle: every acceptance is justified by the reference entitlement function (authenticated, envelope sender entitled, every address of every From field entitled or an entitled Sender present). Non-trivial: distinct accepted cases")
	if rp := r.Replay(); rp != nil {
		var c c15Case
		if json.Unmarshal(rp, &c) != nil {
			r.HarnessError("bad replay")
			return
		}
		c15Eval(r, c)
		return
	}
	if r.Replaying() {
		return
	}
	nfd := norm.NFD.String
	cfgs := []c15Cfg{
		{Name: "identity/auto", Norm: "auto"},
		{Name: "identity/noop", Norm: "noop"},
		{Name: "lists/auto", Norm: "auto", U2E: map[string][]string{"alice": {"alice@example.org", "alias@example.org", "renée@пример.рф", "info@strasse.example"}, "bob": {"bob@example.org"}}},
		{Name: "domain/auto", Norm: "auto", U2E: map[string][]string{"alice": {"example.org"}, "root": {"*"}}},
		{Name: "lists+prepare/auto", Norm: "auto", U2E: map[string][]string{"alice": {"alice@example.org"}}, Prep: map[string][]string{"alias@example.org": {"alice@example.org"}, "shared@example.org": {"alice@example.org", "bob@example.org"}}},
		{Name: "lists/noop", Norm: "noop", U2E: map[string][]string{"alice": {"alice@example.org"}}},
		{Name: "lists/precis_email", Norm: "precis_email", U2E: map[string][]string{"alice@example.org": {"alice@example.org", "alias@example.org"}, "renée@пример.рф": {"renée@пример.рф"}}},
		{Name: "identity/precis_email", Norm: "precis_email"},
		{Name: "regexp-table/auto", Norm: "auto", RegexU2E: []string{`alice@.*`, "*"}},
		{Name: "lists/auto/custom-replies", Norm: "auto", Actions: "custom-replies", U2E: map[string][]string{"alice": {"alice@example.org", "alias@example.org"}, "bob": {"bob@example.org"}}},
	}
	users := []string{"alice", "ALICE", "malice@example.org", "alice@example.org", "Alice@EXAMPLE.org", "bob", "root", "mallory@evil.example", "", "renée@пример.рф", nfd("renée") + "@xn--e1afmkfd.xn--p1ai"}
	addrs := []string{"alice@example.org", "ALICE@Example.ORG", "alias@example.org", "shared@example.org", "bob@example.org", "mallory@evil.example", "renée@пример.рф", nfd("renée") + "@XN--E1AFMKFD.XN--P1AI", "other@example.org", "alice@notexample.org",
		// entitled: info@strasse.example; a different IDNA2008 domain that full case folding would merge with it
		"info@strasse.example", "info@stra\u00dfe.example", "info@XN--STRAE-OQA.example"}
	senders := func(a string) []string {
		return []string{"", "Sender: <alice@example.org>\r\n", "Sender: <mallory@evil.example>\r\n", "Sender: <" + a + ">\r\n"}
	}
	extraLayouts := func(a, b string) []string { return nil }
	if vx.Thorough() {
		addrs = append(addrs, "alice@sub.example.org", "alice@example.org.evil.example", "alice+tag@example.org", "ALIAS@EXAMPLE.ORG")
		extraLayouts = func(a, b string) []string {
			return []string{
				"From: " + a + "\r\n",
				"From: <" + a + "> (on behalf of " + b + ")\r\n",
				"From: (" + a + ") <" + b + ">\r\n",
				"From: <" + a + ">\r\nFrom: <" + a + ">\r\nFrom: <" + b + ">\r\n",
				"From: Team: <" + a + ">;, <" + b + ">\r\n",
				"From: <" + a + ">,\r\n <" + b + ">\r\n",
				"From:\r\n <" + b + ">\r\n",
			}
		}
		senders = func(a string) []string {
			return []string{"", "Sender: <alice@example.org>\r\n", "Sender: <mallory@evil.example>\r\n", "Sender: <" + a + ">\r\n",
				"Sender: Alice <alice@example.org>\r\n", "Sender: <mallory@evil.example>\r\nSender: <alice@example.org>\r\n", "sender: <ALICE@example.ORG>\r\n"}
		}
	}
	layouts := func(a, b string) []string {
		return append(extraLayouts(a, b), []string{
			"From: <" + a + ">\r\n",
			"From: Some One <" + a + ">\r\n",
			"From: <" + a + ">, <" + b + ">\r\n",
			"From: <" + a + ">\r\nFrom: <" + b + ">\r\n",
			"From: <" + b + ">\r\nFrom: <" + a + ">\r\n",
			"From: Team: <" + a + ">, <" + b + ">;\r\n",
			"From: \"" + b + "\" <" + a + ">\r\n",
			"From: =?utf-8?q?" + strings.ReplaceAll(b, "@", "=40") + "?= <" + a + ">\r\n",
			"From: Some\r\n One\r\n <" + a + ">\r\n",
			"Subject: no author\r\n",
			"from: <" + a + ">\r\nFROM: <" + b + ">\r\n",
			"From:\r\nFrom: <" + a + ">\r\n",
			"From: <" + a + ">\r\nFrom:\r\n",
		}...)
	}
	idx := 0
	for _, cfg := range cfgs {
		for _, u := range users {
			for _, mf := range addrs {
				idx++
				if !r.Mine(idx) {
					continue
				}
				for _, a := range addrs {
					for _, b := range []string{"mallory@evil.example", "bob@example.org", "alice@example.org"} {
						for _, lay := range layouts(a, b) {
							for _, snd := range senders(a) {
								c := c15Case{Cfg: cfg, AuthUser: u, MailFrom: mf, Header: lay + snd + "Subject: x\r\n"}
								c15Eval(r, c)
							}
						}
					}
				}
				if idx%31 == 0 {
					r.Sample(c15Case{Cfg: cfg, AuthUser: u, MailFrom: mf, Header: layouts(mf, "mallory@evil.example")[3]})
				}
			}
		}
	}
}
