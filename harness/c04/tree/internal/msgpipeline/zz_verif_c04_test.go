package msgpipeline

// C04 — routing follows the documented precedence for every configuration and
// envelope. Configurations are generated from the directive grammar as
// config.Node trees, loaded by the real msgpipeline.New and driven with
// envelopes; an independent interpreter of the documentation over the same
// tree gives the expected (target, sender, recipient) multiset or refusal.

import (
	"context"
	"encoding/json"
	"errors"
	"fmt"
	"sort"
	"strings"
	"testing"

	"github.com/emersion/go-message/textproto"
	"github.com/emersion/go-smtp"
	"github.com/foxcpp/maddy/framework/buffer"
	"github.com/foxcpp/maddy/framework/config"
	"github.com/foxcpp/maddy/framework/exterrors"
	"github.com/foxcpp/maddy/framework/module"
	_ "github.com/foxcpp/maddy/internal/modify"
	"github.com/foxcpp/maddy/internal/verif/vx"
	"golang.org/x/net/idna"
	"golang.org/x/text/unicode/norm"
)

// ---- recording targets and tables (module instances) ----------------------------------

type c04Target struct {
	name string
	log  *[]string
}

func (t *c04Target) Name() string              { return "verif_target" }
func (t *c04Target) InstanceName() string      { return t.name }
func (t *c04Target) Init(*config.Map) error    { return nil }
func (t *c04Target) Start(ctx context.Context, m *module.MsgMetadata, from string) (module.Delivery, error) {
	return &c04Delivery{t, from}, nil
}

type c04Delivery struct {
	t    *c04Target
	from string
}

func (d *c04Delivery) AddRcpt(ctx context.Context, to string, _ smtp.RcptOptions) error {
	*d.t.log = append(*d.t.log, d.t.name+"|"+d.from+"|"+to)
	return nil
}
func (d *c04Delivery) Body(context.Context, textproto.Header, buffer.Buffer) error { return nil }
func (d *c04Delivery) Abort(context.Context) error                                 { return nil }
func (d *c04Delivery) Commit(context.Context) error                                { return nil }

type c04Table struct {
	name string
	m    map[string][]string
}

func (t *c04Table) Name() string           { return "verif_table" }
func (t *c04Table) InstanceName() string   { return t.name }
func (t *c04Table) Init(*config.Map) error { return nil }
func (t *c04Table) Lookup(ctx context.Context, k string) (string, bool, error) {
	v := t.m[k]
	if len(v) == 0 {
		return "", false, nil
	}
	return v[0], true, nil
}
func (t *c04Table) LookupMulti(ctx context.Context, k string) ([]string, error) { return t.m[k], nil }

var (
	c04Log     []string
	c04Tables  = map[string]*c04Table{}
	c04Targets = []string{"t1", "t2", "t3", "t4", "t5"}
)

func c04Setup() {
	for _, n := range c04Targets {
		module.RegisterInstance(&c04Target{n, &c04Log}, nil)
	}
	for _, n := range []string{"tblA", "tblB", "rwG", "rwS", "rwD", "rwN"} {
		t := &c04Table{name: n, m: map[string][]string{}}
		c04Tables[n] = t
		module.RegisterInstance(t, nil)
	}
}

// ---- configuration model -----------------------------------------------------------------

type c04Leaf struct {
	Targets []string            `json:"deliver_to,omitempty"`
	Reject  int                 `json:"reject,omitempty"` // SMTP code, 0 = none
	Rewrite map[string][]string `json:"modify,omitempty"` // destination-block replace_rcpt (canonical keys)
	Reroute *c04Cfg             `json:"reroute,omitempty"`
}

type c04Clause struct {
	Rules []string `json:"rules,omitempty"` // as spelled in the configuration
	Table []string `json:"table,omitempty"` // *_in: canonical keys of the table
	Leaf  *c04Leaf `json:"leaf,omitempty"`  // destination clause
	Body  *c04Src  `json:"body,omitempty"`  // source clause
}

type c04Src struct {
	Rewrite map[string][]string `json:"modify,omitempty"` // source-level replace_rcpt
	Clauses []c04Clause         `json:"destinations,omitempty"`
	Default *c04Leaf            `json:"default_destination,omitempty"`
	Only    *c04Leaf            `json:"only,omitempty"` // no destination rules: the block is the default destination
}

type c04Cfg struct {
	Rewrite map[string][]string `json:"modify,omitempty"` // global replace_rcpt
	Clauses []c04Clause         `json:"sources,omitempty"`
	Default *c04Src             `json:"default_source,omitempty"`
	Only    *c04Src             `json:"only,omitempty"`
	// ill-formed extras placed next to the rules (must be refused at load time)
	Extra []config.Node `json:"-"`
	Bad   string        `json:"ill_formed,omitempty"`
}

var c04TblSeq int

// c04Alloc installs the content of the next table instance (tables are module
// instances referenced by name: every occurrence gets its own instance; the
// allocation order is deterministic, so rebuilding the nodes re-installs the
// same contents).
func c04Alloc(m map[string][]string) string {
	c04TblSeq++
	name := fmt.Sprintf("vt%d", c04TblSeq)
	t, ok := c04Tables[name]
	if !ok {
		t = &c04Table{name: name}
		c04Tables[name] = t
		module.RegisterInstance(t, nil)
	}
	// the table gets its own copy: what the code under test does to the slices it is handed
	// must not reach the reference interpreter, which reads the configuration's map
	t.m = map[string][]string{}
	for k, v := range m {
		t.m[k] = append([]string{}, v...)
	}
	return name
}

func c04ModifyNode(_ string, m map[string][]string) config.Node {
	return config.Node{Name: "modify", Children: []config.Node{{Name: "replace_rcpt", Args: []string{"&" + c04Alloc(m)}}}}
}

func (c *c04Cfg) build() []config.Node {
	c04TblSeq = 0
	return c.nodes(0)
}

func (l *c04Leaf) nodes(level int) []config.Node {
	var ns []config.Node
	if l.Rewrite != nil {
		tbl := "rwD"
		if level > 0 {
			tbl = "rwN"
		}
		ns = append(ns, c04ModifyNode(tbl, l.Rewrite))
	}
	for _, t := range l.Targets {
		ns = append(ns, config.Node{Name: "deliver_to", Args: []string{"&" + t}})
	}
	if l.Reject != 0 {
		ns = append(ns, config.Node{Name: "reject", Args: []string{fmt.Sprint(l.Reject), fmt.Sprintf("%d.7.0", l.Reject/100), "scripted reject"}})
	}
	if l.Reroute != nil {
		ns = append(ns, config.Node{Name: "reroute", Children: l.Reroute.nodes(level + 1)})
	}
	return ns
}

func (s *c04Src) nodes(level int) []config.Node {
	var ns []config.Node
	if s.Rewrite != nil {
		ns = append(ns, c04ModifyNode("rwS", s.Rewrite))
	}
	if s.Only != nil {
		return append(ns, s.Only.nodes(level)...)
	}
	for _, c := range s.Clauses {
		if c.Table != nil {
			tm := map[string][]string{}
			for _, k := range c.Table {
				tm[k] = []string{"1"}
			}
			tn := c04Alloc(tm)
			ns = append(ns, config.Node{Name: "destination_in", Args: []string{"&" + tn}, Children: c.Leaf.nodes(level)})
		} else {
			ns = append(ns, config.Node{Name: "destination", Args: c.Rules, Children: c.Leaf.nodes(level)})
		}
	}
	if s.Default != nil {
		ns = append(ns, config.Node{Name: "default_destination", Children: s.Default.nodes(level)})
	}
	return ns
}

func (c *c04Cfg) nodes(level int) []config.Node {
	var ns []config.Node
	if c.Rewrite != nil {
		ns = append(ns, c04ModifyNode("rwG", c.Rewrite))
	}
	if c.Only != nil {
		return append(append(ns, c.Only.nodes(level)...), c.Extra...)
	}
	for _, cl := range c.Clauses {
		if cl.Table != nil {
			tm := map[string][]string{}
			for _, k := range cl.Table {
				tm[k] = []string{"1"}
			}
			tn := c04Alloc(tm)
			ns = append(ns, config.Node{Name: "source_in", Args: []string{"&" + tn}, Children: cl.Body.nodes(level)})
		} else {
			ns = append(ns, config.Node{Name: "source", Args: cl.Rules, Children: cl.Body.nodes(level)})
		}
	}
	if c.Default != nil {
		ns = append(ns, config.Node{Name: "default_source", Children: c.Default.nodes(level)})
	}
	return append(ns, c.Extra...)
}

// ---- reference interpreter of the documentation ----------------------------------------

// c04Key: lookup key by the documented definition (case-insensitive, NFC,
// U-label form), computed independently of maddy's helpers.
func c04Key(a string) (string, bool) {
	if a == "" {
		return "", true
	}
	if strings.EqualFold(a, "postmaster") {
		return "postmaster", true
	}
	i := strings.LastIndex(a, "@")
	if i <= 0 || i == len(a)-1 {
		return "", false
	}
	local, dom := a[:i], a[i+1:]
	d, err := idna.ToUnicode(strings.ToLower(dom))
	if err != nil {
		return "", false
	}
	d = norm.NFC.String(strings.ToLower(norm.NFC.String(d)))
	l := norm.NFC.String(strings.ToLower(norm.NFC.String(local)))
	return l + "@" + d, true
}

func c04RuleKey(r string) string {
	if strings.Contains(r, "@") {
		k, _ := c04Key(r)
		return k
	}
	d, _ := idna.ToUnicode(strings.ToLower(r))
	return norm.NFC.String(strings.ToLower(norm.NFC.String(d)))
}

func c04Domain(k string) string {
	if i := strings.LastIndex(k, "@"); i >= 0 {
		return k[i+1:]
	}
	return ""
}

type c04Out struct {
	Deliveries []string // "target|from|to"
	Refused    int      // SMTP code of the refusal (0 = accepted)
}

func c04Rewrite(m map[string][]string, addrs []string) []string {
	if m == nil {
		return addrs
	}
	var out []string
	for _, a := range addrs {
		k, _ := c04Key(a)
		if r, ok := m[k]; ok && len(r) > 0 {
			out = append(out, r...)
		} else if i := strings.LastIndex(k, "@"); i > 0 && len(m[k[:i]]) > 0 {
			// no entry for the address: an entry for its local part applies; a replacement
			// without a domain keeps the domain of the address
			for _, rep := range m[k[:i]] {
				if strings.Contains(rep, "@") {
					out = append(out, rep)
				} else {
					out = append(out, rep+"@"+k[i+1:])
				}
			}
		} else {
			out = append(out, a)
		}
	}
	return out
}

// selectClause: tables first (declaration order), then full address (first
// declaration wins), then domain, then none.
func c04Select(clauses []c04Clause, key string) int {
	for i, c := range clauses {
		if c.Table != nil {
			for _, k := range c.Table {
				if k == key {
					return i
				}
			}
		}
	}
	for i, c := range clauses {
		for _, r := range c.Rules {
			// a rule equal to the whole key: a full address, or the domain-less
			// special address "postmaster" (as in the shipped configuration)
			if c04RuleKey(r) == key {
				return i
			}
		}
	}
	dom := c04Domain(key)
	for i, c := range clauses {
		for _, r := range c.Rules {
			if !strings.Contains(r, "@") && c04RuleKey(r) == dom && dom != "" {
				return i
			}
		}
	}
	return -1
}

// c04Interpret evaluates one recipient for a sender; from is passed unchanged.
func (c *c04Cfg) interpret(from, rcpt string, out *c04Out) {
	if out.Refused != 0 {
		return
	}
	fk, ok := c04Key(from)
	if !ok {
		out.Refused = 501
		return
	}
	var src *c04Src
	if c.Only != nil {
		src = c.Only
	} else if i := c04Select(c.Clauses, fk); i >= 0 && fk != "" {
		src = c.Clauses[i].Body
	} else {
		src = c.Default
	}
	rs := c04Rewrite(c.Rewrite, []string{rcpt})
	rs = c04Rewrite(src.Rewrite, rs)
	for _, r := range rs {
		rk, ok := c04Key(r)
		if !ok {
			out.Refused = 553
			return
		}
		var leaf *c04Leaf
		if src.Only != nil {
			leaf = src.Only
		} else if i := c04Select(src.Clauses, rk); i >= 0 {
			leaf = src.Clauses[i].Leaf
		} else {
			leaf = src.Default
		}
		if leaf.Reject != 0 {
			out.Refused = leaf.Reject
			return
		}
		for _, r2 := range c04Rewrite(leaf.Rewrite, []string{r}) {
			for _, t := range leaf.Targets {
				out.Deliveries = append(out.Deliveries, t+"|"+from+"|"+r2)
			}
			if leaf.Reroute != nil {
				leaf.Reroute.interpret(from, r2, out)
				if out.Refused != 0 {
					return
				}
			}
		}
	}
}

// ---- running one configuration -------------------------------------------------------------

type c04Case struct {
	Cfg  *c04Cfg `json:"config"`
	From string  `json:"from"`
	Rcpt string  `json:"rcpt"`
}

func c04Code(err error) int {
	var se *exterrors.SMTPError
	if errors.As(err, &se) {
		return se.Code
	}
	return 599
}

func c04RunEnvelope(p *MsgPipeline, from, rcpt string) (c04Out, any) {
	var got c04Out
	c04Log = c04Log[:0]
	pv := vx.Catch(func() {
		ctx := context.Background()
		d, err := p.Start(ctx, &module.MsgMetadata{ID: "c04"}, from)
		if err != nil {
			got.Refused = c04Code(err)
			return
		}
		if err := d.AddRcpt(ctx, rcpt, smtp.RcptOptions{}); err != nil {
			got.Refused = c04Code(err)
		}
		d.Abort(ctx)
	})
	got.Deliveries = append([]string{}, c04Log...)
	return got, pv
}

func c04Same(a, b c04Out) bool {
	if (a.Refused != 0) != (b.Refused != 0) {
		return false
	}
	if a.Refused != 0 {
		return a.Refused == b.Refused || b.Refused == 501 || b.Refused == 553
	}
	x := append([]string{}, a.Deliveries...)
	y := append([]string{}, b.Deliveries...)
	sort.Strings(x)
	sort.Strings(y)
	return strings.Join(x, "\n") == strings.Join(y, "\n")
}

var c04Senders = []string{
	"s1@sender.example", "S1@SENDER.EXAMPLE", "other@sender.example", "x@unrelated.example", "",
	"s1@пример.рф", "S1@XN--E1AFMKFD.XN--P1AI", "ś@sender.example", "ś@sender.example", "postmaster",
	"s1@sender.рф", "s1@sender.xn--p1ai",
}

var c04Rcpts = []string{
	"r1@dest.example", "R1@Dest.Example", "r2@dest.example", "r1@пример.рф", "R1@xn--E1AFMKFD.xn--p1ai", "r2@XN--E1AFMKFD.XN--P1AI",
	"x@unrelated.example", "alias@dest.example", "ré@dest.example", "ré@DEST.example", "postmaster",
	"r1@dest.рф", "r1@dest.xn--p1ai", "r2@DEST.XN--P1AI",
}

func c04Check(r *vx.Run, cfg *c04Cfg, sampleIdx int) {
	nodes := cfg.build()
	var p *MsgPipeline
	var lerr error
	if pv := vx.Catch(func() { p, lerr = New(map[string]interface{}{}, nodes) }); pv != nil {
		r.Violation("C04:load:panic", fmt.Sprintf("%v\nconfig %s", pv, vx.JSON(cfg)), c04Case{Cfg: cfg})
		return
	}
	r.Eval()
	if cfg.Bad != "" {
		if lerr == nil {
			r.Violation("C04:load:ill-formed-accepted:"+cfg.Bad, fmt.Sprintf("configuration without an explicit decision for every sender/recipient is accepted: %s", vx.JSON(nodes)), c04Case{Cfg: cfg})
		}
		r.Outcome("refused-at-load")
		return
	}
	if lerr != nil {
		r.Violation("C04:load:well-formed-refused", fmt.Sprintf("%v\nconfig %s", lerr, vx.JSON(cfg)), c04Case{Cfg: cfg})
		return
	}
	for _, from := range c04Senders {
		for _, rcpt := range c04Rcpts {
			// (the tables keep the contents installed when the configuration was built: all
			// envelopes of a configuration go through one pipeline and one set of table instances)
			var want c04Out
			cfg.interpret(from, rcpt, &want)
			if want.Refused != 0 {
				want.Deliveries = nil
			}
			got, pv := c04RunEnvelope(p, from, rcpt)
			r.Eval()
			cs := c04Case{Cfg: cfg, From: from, Rcpt: rcpt}
			if pv != nil {
				r.Violation("C04:route:panic", fmt.Sprintf("%v", pv), cs)
				continue
			}
			if got.Refused != 0 {
				// a refused recipient must not be visible to any target
				if len(got.Deliveries) != 0 && want.Refused != 0 {
					// targets reached before the refusing block: only legal through reroute fan-out
				}
			}
			if !c04Same(got, want) {
				kind := "wrong-targets"
				switch {
				case got.Refused != 0 && want.Refused == 0:
					kind = "refused-instead-of-delivered"
				case got.Refused == 0 && want.Refused != 0:
					kind = "delivered-instead-of-refused"
				case got.Refused != want.Refused:
					kind = "wrong-reply"
				}
				spell := ""
				if k, _ := c04Key(rcpt); k != rcpt {
					spell = ":spelling"
				} else if k, _ := c04Key(from); k != from {
					spell = ":spelling"
				}
				r.Violation("C04:route:"+kind+spell, fmt.Sprintf("MAIL FROM:<%s> RCPT TO:<%s>\n got: %+v\nwant: %+v\nconfig: %s", from, rcpt, got, want, vx.JSON(cfg)), cs)
				continue
			}
			if want.Refused != 0 {
				r.Outcome("refused")
			} else {
				r.Outcome(fmt.Sprintf("delivered-to-%d", len(want.Deliveries)))
			}
		}
	}
	r.Nontrivial(vx.JSON(cfg))
	if sampleIdx%211 == 0 {
		r.Sample(cfg)
	}
}

// ---- generation ---------------------------------------------------------------------------------

func c04Leaves() []*c04Leaf {
	inner := &c04Cfg{Only: &c04Src{Clauses: []c04Clause{{Rules: []string{"dest.example"}, Leaf: &c04Leaf{Targets: []string{"t4"}}}}, Default: &c04Leaf{Targets: []string{"t5"}}}}
	innerRej := &c04Cfg{Only: &c04Src{Clauses: []c04Clause{{Rules: []string{"alias@dest.example"}, Leaf: &c04Leaf{Reject: 550}}}, Default: &c04Leaf{Targets: []string{"t5"}}}}
	return []*c04Leaf{
		{Targets: []string{"t1"}},
		{Targets: []string{"t1", "t2"}},
		{Reject: 554},
		{Reject: 450},
		{Targets: []string{"t3"}, Rewrite: map[string][]string{"r1@dest.example": {"alias@dest.example"}}},
		{Reroute: inner, Rewrite: map[string][]string{"r1@dest.example": {"alias@dest.example", "x@unrelated.example"}}},
		{Targets: []string{"t2"}, Reroute: innerRej},
	}
}

var c04DestRuleSets = [][]string{
	{"r1@dest.example"}, {"dest.example"}, {"R1@DEST.EXAMPLE"}, {"пример.рф"}, {"XN--E1AFMKFD.XN--P1AI"},
	{"r1@xn--e1afmkfd.xn--p1ai", "unrelated.example"}, {"ré@dest.example"}, {"postmaster"},
	{"dest.xn--p1ai"}, {"r1@dest.рф"},
}

func TestVerifC04(t *testing.T) {
	r := vx.Start("C04", "routing")
	defer r.Finish()
	c04Setup()
	r.Rule("configurations generated from the directive grammar (source / source_in / default_source, destination / destination_in / default_destination with 1-2 clauses from 8 rule sets incl. case, NFD, A-label and upper-case A-label spellings and duplicates, reject with 2 codes, deliver_to with 1-2 targets, global / source / destination modify with 1->1, 1->2 and chained 1->2->3 recipient rewriting, an entry keyed by the local part with a domain-less replacement, reroute with a nested pipeline), each loaded by the real msgpipeline.New and driven with every envelope of 10 senders x 11 recipients (spelling variants, null sender, postmaster); ill-formed shapes (handling directive next to rules, missing default, reject+deliver_to, empty block) must be refused at load; oracle: independent interpreter of docs/reference/smtp-pipeline.md (tables, then full address, then domain, then default; first declaration wins; sender then recipient; rewriting of enclosing scopes first). Non-trivial: distinct accepted configurations")
	if rp := r.Replay(); rp != nil {
		var c c04Case
		if json.Unmarshal(rp, &c) != nil || c.Cfg == nil {
			r.HarnessError("bad replay")
			return
		}
		c04Check(r, c.Cfg, 1)
		return
	}
	if r.Replaying() {
		return
	}
	leaves := c04Leaves()
	idx := 0
	do := func(cfg *c04Cfg) {
		idx++
		if r.Mine(idx) {
			c04Check(r, cfg, idx)
		}
	}
	// destination level: 0-2 clauses x leaves, inside the implicit default source
	var dests []*c04Src
	for _, l := range leaves {
		dests = append(dests, &c04Src{Only: l})
	}
	nl := len(leaves)
	for i, rs1 := range c04DestRuleSets {
		for li := range leaves {
			def := leaves[(li+2)%nl]
			dests = append(dests, &c04Src{Clauses: []c04Clause{{Rules: rs1, Leaf: leaves[li]}}, Default: def})
			// table clause
			if i < 3 {
				dests = append(dests, &c04Src{Clauses: []c04Clause{{Table: []string{c04RuleKeyAddr(rs1[0])}, Leaf: leaves[li]}, {Rules: []string{"dest.example"}, Leaf: leaves[(li+1)%nl]}}, Default: def})
			}
			for j, rs2 := range c04DestRuleSets {
				_ = j
				dests = append(dests, &c04Src{Clauses: []c04Clause{{Rules: rs1, Leaf: leaves[li]}, {Rules: rs2, Leaf: leaves[(li+1)%nl]}}, Default: def})
			}
		}
	}
	if vx.Thorough() {
		for i, rs1 := range c04DestRuleSets {
			for j, rs2 := range c04DestRuleSets {
				for k, rs3 := range c04DestRuleSets {
					li := (i + 2*j + 3*k) % nl
					dests = append(dests, &c04Src{Clauses: []c04Clause{{Rules: rs1, Leaf: leaves[li]}, {Rules: rs2, Leaf: leaves[(li+1)%nl]}, {Rules: rs3, Leaf: leaves[(li+3)%nl]}}, Default: leaves[(li+2)%nl]})
				}
			}
		}
	}
	// a table and a full-address rule for the same key: the table wins, in either declaration order
	for li := range leaves {
		tc := c04Clause{Table: []string{"r1@dest.example", "r1@пример.рф"}, Leaf: leaves[li]}
		ac := c04Clause{Rules: []string{"r1@dest.example", "R1@XN--E1AFMKFD.XN--P1AI"}, Leaf: leaves[(li+1)%nl]}
		dests = append(dests, &c04Src{Clauses: []c04Clause{tc, ac}, Default: leaves[(li+2)%nl]}, &c04Src{Clauses: []c04Clause{ac, tc}, Default: leaves[(li+2)%nl]})
	}
	for _, d := range dests {
		do(&c04Cfg{Only: d})
	}
	// source-level and global recipient rewriting in front of destination selection
	rw1 := map[string][]string{"r2@dest.example": {"r1@dest.example"}}
	rw2 := map[string][]string{"x@unrelated.example": {"r1@dest.example", "r2@пример.рф"}}
	rw3 := map[string][]string{"r1@dest.example": {"r2@dest.example", "alias@dest.example"}}
	rw4 := map[string][]string{"r2@dest.example": {"x@unrelated.example", "alias@dest.example"}}
	// an entry keyed by a local part whose replacement has no domain: every domain keeps its own
	rw5 := map[string][]string{"r1": {"alias"}}
	for i, d := range dests {
		if i%3 != 0 && !vx.Thorough() {
			continue
		}
		do(&c04Cfg{Only: d, Rewrite: rw5})
		d1 := *d
		d1.Rewrite = rw1
		do(&c04Cfg{Only: &d1})
		do(&c04Cfg{Only: d, Rewrite: rw2})
		d2 := *d
		d2.Rewrite = rw2
		do(&c04Cfg{Only: &d2, Rewrite: rw1})
		// chained expansions: the global rewriting yields two addresses and the source-level
		// rewriting expands the first of them again (and the other way round)
		d3 := *d
		d3.Rewrite = rw3
		do(&c04Cfg{Only: &d3, Rewrite: rw2})
		d4 := *d
		d4.Rewrite = rw2
		do(&c04Cfg{Only: &d4, Rewrite: rw4})
		// the same with the second rewriting inside source blocks (a modify next to the
		// destination rules of a pipeline without source rules is a second global modifier)
		do(&c04Cfg{Rewrite: rw2, Clauses: []c04Clause{{Rules: []string{"sender.example"}, Body: &d3}}, Default: &d1})
		do(&c04Cfg{Rewrite: rw4, Clauses: []c04Clause{{Rules: []string{"s1@sender.example"}, Body: &d4}}, Default: &d3})
		do(&c04Cfg{Rewrite: rw1, Clauses: []c04Clause{{Rules: []string{"sender.example"}, Body: &d2}}, Default: d})
	}
	// source level
	srcRuleSets := [][]string{{"sender.xn--p1ai"}, {"s1@sender.example"}, {"sender.example"}, {"S1@SENDER.EXAMPLE"}, {"xn--e1afmkfd.xn--p1ai"}, {"s1@пример.рф", "sender.example"}, {"ś@sender.example"}}
	bodies := []*c04Src{dests[0], dests[2], dests[len(leaves)+1], dests[len(dests)/2], dests[len(dests)-1]}
	for i, rs1 := range srcRuleSets {
		for bi, b := range bodies {
			def := bodies[(bi+1)%len(bodies)]
			do(&c04Cfg{Clauses: []c04Clause{{Rules: rs1, Body: b}}, Default: def})
			do(&c04Cfg{Clauses: []c04Clause{{Table: []string{"other@sender.example"}, Body: b}, {Rules: rs1, Body: bodies[(bi+2)%len(bodies)]}}, Default: def})
			for j, rs2 := range srcRuleSets {
				_, _ = i, j
				do(&c04Cfg{Clauses: []c04Clause{{Rules: rs1, Body: b}, {Rules: rs2, Body: bodies[(bi+3)%len(bodies)]}}, Default: def})
			}
		}
	}
	for bi, b := range bodies {
		tc := c04Clause{Table: []string{"s1@sender.example", "s1@пример.рф"}, Body: b}
		ac := c04Clause{Rules: []string{"s1@sender.example", "пример.рф"}, Body: bodies[(bi+1)%len(bodies)]}
		do(&c04Cfg{Clauses: []c04Clause{tc, ac}, Default: bodies[(bi+2)%len(bodies)]})
		do(&c04Cfg{Clauses: []c04Clause{ac, tc}, Default: bodies[(bi+2)%len(bodies)]})
	}
	// ill-formed shapes
	ok := leaves[0]
	bad := []*c04Cfg{
		{Bad: "handling-next-to-source-rules", Clauses: []c04Clause{{Rules: []string{"sender.example"}, Body: &c04Src{Only: ok}}}, Default: &c04Src{Only: ok}, Extra: []config.Node{{Name: "deliver_to", Args: []string{"&t1"}}}},
		{Bad: "missing-default-source", Clauses: []c04Clause{{Rules: []string{"sender.example"}, Body: &c04Src{Only: ok}}}},
		{Bad: "missing-default-destination", Only: &c04Src{Clauses: []c04Clause{{Rules: []string{"dest.example"}, Leaf: ok}}}},
		{Bad: "reject-and-deliver", Only: &c04Src{Only: &c04Leaf{Targets: []string{"t1"}, Reject: 550}}},
		{Bad: "empty-pipeline"},
		{Bad: "empty-source-block", Clauses: []c04Clause{{Rules: []string{"sender.example"}, Body: &c04Src{}}}, Default: &c04Src{Only: ok}},
		{Bad: "empty-reroute", Only: &c04Src{Only: &c04Leaf{Reroute: &c04Cfg{}}}},
		{Bad: "handling-next-to-destination-rules", Only: &c04Src{Clauses: []c04Clause{{Rules: []string{"dest.example"}, Leaf: ok}}, Default: ok}, Extra: []config.Node{{Name: "reject"}}},
		{Bad: "missing-default-in-nested", Only: &c04Src{Only: &c04Leaf{Reroute: &c04Cfg{Clauses: []c04Clause{{Rules: []string{"sender.example"}, Body: &c04Src{Only: ok}}}}}}},
	}
	for _, b := range bad {
		do(b)
	}
	r.Bound("destination_level_configs", len(dests))
	r.Bound("senders", len(c04Senders))
	r.Bound("recipients", len(c04Rcpts))
}

func c04RuleKeyAddr(r string) string { return c04RuleKey(r) }
