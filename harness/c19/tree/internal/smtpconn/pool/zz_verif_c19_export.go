package pool

// Verification-only accessor (injected by overlay): the idle connections of every
// bucket, read while no Get/Return is running. Reflection is used because in the
// scheduler-rewritten build the bucket channel is not a Go channel; the accessor is
// only called in the free-running build.

import "reflect"

func VerifIdle(p *P) map[string][]Conn {
	p.keysLock.Lock()
	defer p.keysLock.Unlock()
	out := map[string][]Conn{}
	for k, s := range p.keys {
		v := reflect.ValueOf(s.c)
		if v.Kind() != reflect.Chan {
			continue
		}
		n := v.Len()
		for i := 0; i < n; i++ {
			x, ok := v.TryRecv()
			if !ok {
				break
			}
			if c, isConn := x.Interface().(Conn); isConn {
				out[k] = append(out[k], c)
			}
			v.TrySend(x)
		}
	}
	return out
}
