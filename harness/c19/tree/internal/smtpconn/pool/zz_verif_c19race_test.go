package pool

// C19 (part "race") — the schedule exploration runs pool.go under a cooperative
// scheduler, whose hand-offs hide unsynchronised accesses from any detector.
// This part runs the same kind of scenario (workers get/use/return, a sweep, a
// shutdown) on the REAL pool.go with real goroutines under the race detector.
// It is sampling: it validates the data-race-freedom assumption of the
// exploration, it does not decide the property.

import (
	"context"
	"fmt"
	"sync"
	"sync/atomic"
	"testing"
	"time"

	"github.com/foxcpp/maddy/internal/verif/vx"
)

type c19rConn struct {
	id      int64
	owner   atomic.Int64
	closed  atomic.Int64
	lastUse atomic.Int64
}

func (c *c19rConn) Usable() bool         { return c.closed.Load() == 0 }
func (c *c19rConn) LastUseAt() time.Time { return time.Unix(0, c.lastUse.Load()) }
func (c *c19rConn) Close() error         { c.closed.Add(1); return nil }

func TestVerifC19Race(t *testing.T) {
	r := vx.Start("C19", "race")
	defer r.Finish()
	r.Rule("free-running runs of the real pool.go under the Go race detector: 4 workers x 3 rounds of Get/use/Return over 2 keys, one CleanUp, one Close, 300 iterations per shard (sampling; validates the data-race-freedom assumption of the schedule exploration, and the ownership / closed-once monitors on real threads)")
	if r.Replaying() {
		return
	}
	iters := 300
	for it := 0; it < iters; it++ {
		var seq atomic.Int64
		var all sync.Map
		pl := New(Config{MaxKeys: 2, MaxConnsPerKey: 2, MaxConnLifetimeSec: 100, StaleKeyLifetimeSec: 100,
			New: func(ctx context.Context, key string) (Conn, error) {
				c := &c19rConn{id: seq.Add(1)}
				c.owner.Store(-1)
				c.lastUse.Store(time.Now().UnixNano())
				all.Store(c.id, c)
				return c, nil
			}})
		var wg sync.WaitGroup
		var bad atomic.Value
		for wkr := 0; wkr < 4; wkr++ {
			wkr := wkr
			wg.Add(1)
			go func() {
				defer wg.Done()
				key := fmt.Sprint("k", wkr%2)
				for round := 0; round < 3; round++ {
					ci, err := pl.Get(context.Background(), key)
					if err != nil || ci == nil {
						continue
					}
					c := ci.(*c19rConn)
					if !c.owner.CompareAndSwap(-1, int64(wkr)) {
						bad.Store(fmt.Sprintf("conn %d handed to worker %d while owned", c.id, wkr))
					}
					if c.closed.Load() > 0 {
						bad.Store(fmt.Sprintf("conn %d handed out after close", c.id))
					}
					c.lastUse.Store(time.Now().UnixNano())
					c.owner.Store(-1)
					pl.Return(key, c)
				}
			}()
		}
		wg.Add(2)
		go func() { defer wg.Done(); pl.CleanUp(context.Background()) }()
		go func() { defer wg.Done(); pl.Close() }()
		wg.Wait()
		r.Eval()
		all.Range(func(_, v any) bool {
			if n := v.(*c19rConn).closed.Load(); n > 1 {
				bad.Store(fmt.Sprintf("conn %d closed %d times", v.(*c19rConn).id, n))
			}
			return true
		})
		if b := bad.Load(); b != nil {
			r.Violation("C19:race:monitor", b.(string), map[string]any{"iteration": it})
			return
		}
	}
	r.Outcome("no-race-reported")
	r.Count("race_sampling_iterations", int64(iters))
	r.Assume("part race is sampling (free-running OS schedules under the race detector); it supports the data-race-freedom assumption of the exploration and is not counted as exhaustive coverage")
}
