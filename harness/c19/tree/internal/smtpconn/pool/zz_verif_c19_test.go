package pool

// C19 — a pooled connection is used by one delivery at a time, never handed
// out after close / expiry / shutdown, and closed exactly once. pool.go is
// compiled from a scheduler-rewritten copy; all schedules up to a pre-emption
// bound are explored.

import (
	"context"
	"fmt"
	"sort"
	"strings"
	"testing"
	"time"

	"github.com/foxcpp/maddy/internal/verif/vsched"
	"github.com/foxcpp/maddy/internal/verif/vx"
)

type c19World struct {
	conns      []*c19Conn
	viol       []string
	poolClosed   bool // p.Close() returned
	closeInvoked bool // p.Close() was called (it may not have taken effect yet)
}

func (w *c19World) fail(kind, detail string) {
	w.viol = append(w.viol, kind+"|"+detail)
}

type c19Conn struct {
	w        *c19World
	id       int
	key      string
	owner    int
	closed   int
	unusable bool
	lastUse  time.Time
	returned bool // was handed to Return at least once while the pool was live
	everRet  bool // was handed to Return at all (also after shutdown)
	inPool   bool
}

func (c *c19Conn) Usable() bool         { return !c.unusable && c.closed == 0 }
func (c *c19Conn) LastUseAt() time.Time { return c.lastUse }
func (c *c19Conn) Close() error {
	c.closed++
	if c.closed > 1 {
		c.w.fail("closed-twice", fmt.Sprintf("conn %d closed %d times", c.id, c.closed))
	}
	if c.owner >= 0 {
		c.w.fail("closed-while-in-use", fmt.Sprintf("conn %d closed while owned by worker %d", c.id, c.owner))
	}
	return nil
}

type c19Params struct {
	name      string
	workers   []string // key per worker
	rounds    int
	maxKeys   int
	perKey    int
	lifetime  int64
	staleKey  int64
	closer    bool
	sweeper   bool          // explicit CleanUp call
	clock     time.Duration // a thread advances the virtual clock by this much
	unusable  bool          // the first connection turns unusable when returned
	afterGet  bool          // a Get issued after Close() returned
	bound     int
}

func c19Scenario(p c19Params) vx.ScheduleScenario {
	return vx.ScheduleScenario{Name: p.name, Bound: p.bound, Opt: vsched.Options{MaxSteps: 1500}, Make: func() vsched.Scenario {
		w := &c19World{}
		return vsched.Scenario{
			Root: func() {
				cfg := Config{
					MaxKeys: p.maxKeys, MaxConnsPerKey: p.perKey, MaxConnLifetimeSec: p.lifetime, StaleKeyLifetimeSec: p.staleKey,
					New: func(ctx context.Context, key string) (Conn, error) {
						c := &c19Conn{w: w, id: len(w.conns), key: key, owner: -1, lastUse: vsched.Now()}
						w.conns = append(w.conns, c)
						return c, nil
					},
				}
				pl := New(cfg)
				var wg vsched.WaitGroup
				use := func(worker int, key string, afterClose bool) {
					ci, err := pl.Get(context.Background(), key)
					if err != nil || ci == nil {
						w.fail("get-failed", fmt.Sprint(err))
						return
					}
					c := ci.(*c19Conn)
					now := vsched.Now()
					if c.closed > 0 {
						w.fail("handed-out-after-close", fmt.Sprintf("conn %d", c.id))
					}
					if c.owner >= 0 {
						w.fail("two-owners", fmt.Sprintf("conn %d owned by %d handed to %d", c.id, c.owner, worker))
					}
					if c.returned && c.lastUse.Add(time.Duration(p.lifetime)*time.Second).Before(now) {
						w.fail("handed-out-expired", fmt.Sprintf("conn %d idle since %s, now %s, lifetime %ds", c.id, c.lastUse.Sub(vsched.Epoch), now.Sub(vsched.Epoch), p.lifetime))
					}
					if c.unusable {
						w.fail("handed-out-unusable", fmt.Sprintf("conn %d", c.id))
					}
					if c.key != key {
						w.fail("wrong-key", fmt.Sprintf("conn %d of key %s handed out for %s", c.id, c.key, key))
					}
					if afterClose && (c.returned || c.everRet) {
						// whatever was given to Return - before or after the shutdown - is a pooled
						// connection; nothing pooled may be handed out once Close() has returned
						w.fail("get-after-shutdown", fmt.Sprintf("pooled conn %d handed out after Close() returned", c.id))
					}
					c.inPool = false
					c.returned = false // handed out again: the obligation of the earlier Return is discharged
					c.owner = worker
					vsched.Yield() // the connection is in use
					c.owner = -1
					c.lastUse = vsched.Now()
					if p.unusable && c.id == 0 {
						c.unusable = true
					}
					c.inPool = true
					c.everRet = true
					pl.Return(key, c)
					// Judged by invocation/response order: only a Return that completed
					// before Close() was even invoked is certainly a return to a live pool.
					if !w.closeInvoked {
						c.returned = true
					}
				}
				for i, key := range p.workers {
					i, key := i, key
					wg.Add(1)
					vsched.GoNamed(fmt.Sprintf("worker%d", i), func() {
						for r := 0; r < p.rounds; r++ {
							use(i, key, false)
						}
						wg.Done()
					})
				}
				if p.clock > 0 {
					wg.Add(1)
					vsched.GoNamed("clock", func() { vsched.Advance(p.clock); wg.Done() })
				}
				if p.sweeper {
					wg.Add(1)
					vsched.GoNamed("sweeper", func() { pl.CleanUp(context.Background()); wg.Done() })
				}
				if p.closer {
					wg.Add(1)
					vsched.GoNamed("closer", func() { w.closeInvoked = true; pl.Close(); w.poolClosed = true; wg.Done() })
				}
				wg.Wait()
				if p.afterGet && w.poolClosed {
					use(99, p.workers[0], true)
				}
				if !p.closer {
					w.closeInvoked = true
					pl.Close()
					w.poolClosed = true
				}
			},
			Check: func(o *vsched.Outcome) (string, string) {
				cls := "C19:" + strings.SplitN(p.name, "-", 2)[0]
				if len(o.Panics) > 0 {
					return cls + ":panic:" + vx.PanicSite(o.Panics[0]), o.Panics[0]
				}
				if o.Deadlock {
					sort.Strings(o.Blocked)
					return cls + ":deadlock", strings.Join(o.Blocked, "; ")
				}
				if o.StepCap {
					return cls + ":livelock", "step cap"
				}
				if len(w.viol) > 0 {
					kv := strings.SplitN(w.viol[0], "|", 2)
					return cls + ":" + kv[0], strings.Join(w.viol, "; ")
				}
				// quiescence: every connection returned to the live pool was closed exactly once
				for _, c := range w.conns {
					if c.returned && c.closed != 1 && !(p.closer) {
						return cls + ":not-closed-at-shutdown", fmt.Sprintf("conn %d returned to the live pool, closed %d times after Close()", c.id, c.closed)
					}
					if p.closer && c.returned && c.closed == 0 && c.inPool {
						// returned while the pool was live and never closed: only legal if the
						// Return itself came after shutdown (then returned is not set)
						return cls + ":leaked", fmt.Sprintf("conn %d returned to the live pool and never closed", c.id)
					}
				}
				return "", ""
			},
		}
	}}
}

func TestVerifC19(t *testing.T) {
	r := vx.Start("C19", "pool")
	defer r.Finish()
	r.Rule("every interleaving (lock, channel, select, goroutine-start, ticker operations of the scheduler-rewritten pool.go) of 2-4 workers doing get/use/return on 1-2 keys with idle-count, key-count and lifetime bounds hit, plus clean-up sweep, clock jumps and one shutdown, up to the pre-emption bound; oracle: ownership monitor on instrumented connections (<=1 owner, never after close/expiry/shutdown, closed exactly once, no panic/deadlock). Non-trivial: distinct schedules with a pre-emption or >1 context switch")
	r.Assume("map iteration in pool.go follows sorted key order (iteration order is owned, permutations not explored)")
	b := 2
	if vx.Thorough() {
		b = 3
	}
	scs := []vx.ScheduleScenario{
		c19Scenario(c19Params{name: "P1-2workers-1key", workers: []string{"a", "a"}, rounds: 2, maxKeys: 5, perKey: 1, lifetime: 100, staleKey: 100, bound: b}),
		c19Scenario(c19Params{name: "P1-3workers-1key-cap2", workers: []string{"a", "a", "a"}, rounds: 1, maxKeys: 5, perKey: 2, lifetime: 100, staleKey: 100, bound: b}),
		c19Scenario(c19Params{name: "P2-2keys-maxkeys1", workers: []string{"a", "b"}, rounds: 2, maxKeys: 1, perKey: 1, lifetime: 100, staleKey: 0, clock: 2 * time.Second, bound: b}),
		c19Scenario(c19Params{name: "P3-sweep", workers: []string{"a", "a"}, rounds: 2, maxKeys: 5, perKey: 2, lifetime: 100, staleKey: 1, sweeper: true, clock: 3 * time.Second, bound: b}),
		c19Scenario(c19Params{name: "P4-lifetime", workers: []string{"a", "a"}, rounds: 2, maxKeys: 5, perKey: 2, lifetime: 1, staleKey: 100, clock: 3 * time.Second, bound: b}),
		c19Scenario(c19Params{name: "P5-close", workers: []string{"a", "a"}, rounds: 2, maxKeys: 5, perKey: 2, lifetime: 100, staleKey: 100, closer: true, afterGet: true, bound: b}),
		c19Scenario(c19Params{name: "P6-unusable", workers: []string{"a", "a"}, rounds: 2, maxKeys: 5, perKey: 2, lifetime: 100, staleKey: 100, unusable: true, bound: b}),
	}
	if vx.Thorough() {
		scs = append(scs,
			c19Scenario(c19Params{name: "P1-4workers-2keys", workers: []string{"a", "a", "b", "b"}, rounds: 1, maxKeys: 1, perKey: 1, lifetime: 100, staleKey: 0, clock: 2 * time.Second, bound: 2}),
			c19Scenario(c19Params{name: "P5-close-sweep-3workers", workers: []string{"a", "a", "b"}, rounds: 1, maxKeys: 5, perKey: 1, lifetime: 100, staleKey: 1, closer: true, sweeper: true, clock: 2 * time.Second, bound: 2}),
		)
		// execution budget per scenario and shard: a scenario whose bound-3 space does not
		// close within it is reported as capped (bound completed = 2), not run for hours
		for i := range scs {
			scs[i].MaxExecs = 1500000
		}
	}
	r.ExploreSchedules(scs)
}
