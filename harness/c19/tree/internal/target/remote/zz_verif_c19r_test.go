package remote

// C19 (part "remote") — "never handed out after it exceeded its idle lifetime",
// for the connection type the pool really holds: the remote target's mxConn
// (whose Usable / LastUseAt / Close the pool calls). The real remote target
// with an idle lifetime of 1 s delivers twice to one domain over a scripted MX;
// the second delivery starts after a measured gap. Real time is used only as
// a lower bound of the idle time: a gap measured as larger than the lifetime
// (plus the one-second granularity of the pool's clock) means the pooled
// connection had expired for certain, whatever the load.

import (
	"context"
	"encoding/json"
	"fmt"
	"net"
	"testing"
	"time"

	"github.com/emersion/go-message/textproto"
	"github.com/emersion/go-smtp"
	"github.com/foxcpp/go-mockdns"
	"github.com/foxcpp/maddy/framework/buffer"
	"github.com/foxcpp/maddy/framework/module"
	"github.com/foxcpp/maddy/internal/verif/peers"
	"github.com/foxcpp/maddy/internal/verif/vx"
)

type c19rCase struct {
	First   string `json:"first_delivery"` // complete | aborted-after-rcpt
	StallMS int    `json:"stall_before_abort_ms"` // the first delivery idles this long after its last command
	GapMS   int    `json:"gap_ms"`
}

type c19rStatus struct{}

func (c19rStatus) SetStatus(string, error) {}

var c19rPKI = peers.NewPKI()

func c19rRun(c c19rCase) (fp, detail, outcome string) {
	w := peers.NewWorld(c19rPKI)
	defer w.Close()
	w.Add(peers.Script{Host: "mx.dest.example", SMTPUTF8: true})
	zones := map[string]mockdns.Zone{
		"dest.example.":    {MX: []net.MX{{Host: "mx.dest.example.", Pref: 10}}},
		"mx.dest.example.": {A: []string{"127.0.0.1"}},
	}
	rt := VerifNewTarget(w.Dial, zones, c19rPKI.Pool)
	defer rt.Close()
	const lifetime = 1
	VerifSetIdleLifetime(rt, lifetime)
	ctx := context.Background()
	hdr := textproto.Header{}
	hdr.Add("Subject", "c19r")
	deliver := func(id string, abort bool) (time.Time, error) {
		d, err := rt.Start(ctx, &module.MsgMetadata{ID: id}, "s@sender.example")
		if err != nil {
			return time.Time{}, err
		}
		if err := d.AddRcpt(ctx, "a@dest.example", smtp.RcptOptions{}); err != nil {
			d.Abort(ctx)
			return time.Time{}, err
		}
		last := time.Now() // the connection was last used no later than now ...
		if abort {
			// the delivery stalls (a slow other MX, a slow check) and is given up: the connection
			// goes back to the pool now, but it was last used before the stall
			time.Sleep(time.Duration(c.StallMS) * time.Millisecond)
			d.Abort(ctx)
			return last, nil
		}
		d.(module.PartialDelivery).BodyNonAtomic(ctx, c19rStatus{}, hdr, buffer.MemoryBuffer{Slice: []byte("hi\r\n")})
		last = time.Now()
		d.Commit(ctx)
		return last, nil
	}
	t1, err := deliver("c19r-1", c.First == "aborted-after-rcpt")
	if err != nil {
		return "HARNESS:first-delivery", err.Error(), ""
	}
	time.Sleep(time.Duration(c.GapMS) * time.Millisecond)
	t2 := time.Now() // ... and is taken from the pool no earlier than now
	if _, err := deliver("c19r-2", false); err != nil {
		return "HARNESS:second-delivery", err.Error(), ""
	}
	idleAtLeast := t2.Sub(t1)
	conns := map[int]bool{}
	var order []int
	for _, t := range w.Txns() {
		if !conns[t.ConnID] {
			conns[t.ConnID] = true
			order = append(order, t.ConnID)
		}
	}
	reused := len(conns) == 1
	if idleAtLeast > (lifetime+1)*time.Second && reused {
		return "C19:remote:handed-out-after-idle-lifetime", fmt.Sprintf("the pooled connection was idle for at least %s (idle lifetime %d s) and was handed to the next delivery (transactions on connections %v)", idleAtLeast.Round(time.Millisecond), lifetime, order), ""
	}
	if reused {
		return "", "", "reused within the lifetime"
	}
	return "", "", "new connection"
}

func TestVerifC19Remote(t *testing.T) {
	r := vx.Start("C19", "remote")
	defer r.Finish()
	r.Rule("the real remote target (pool of real mxConn objects, idle lifetime 1 s) delivering twice to one domain over a scripted MX: first delivery complete, or aborted after RCPT with or without a stall before the abort (the connection returns to a fresh bucket but was last used before the stall), second delivery at once or after 1.2 / 2.3 s; oracle: a connection whose measured minimal idle time exceeds lifetime + 1 s is not handed to the second delivery (both deliveries on one server-side connection = violation). Real time enters only as a lower bound of the idle time")
	if rp := r.Replay(); rp != nil {
		var c c19rCase
		if json.Unmarshal(rp, &c) != nil || c.First == "" {
			return
		}
		fp, detail, _ := c19rRun(c)
		r.Eval()
		if fp != "" {
			r.Violation(fp, detail, c)
		}
		return
	}
	if r.Replaying() {
		return
	}
	idx := 0
	for _, c := range []c19rCase{
		{First: "complete", GapMS: 0},
		{First: "complete", GapMS: 2300},
		{First: "aborted-after-rcpt", StallMS: 0, GapMS: 0},
		{First: "aborted-after-rcpt", StallMS: 2300, GapMS: 0},
		{First: "aborted-after-rcpt", StallMS: 1200, GapMS: 1200},
	} {
		{
			first, gap := c.First, c.GapMS
			idx++
			if !r.Mine(idx) {
				continue
			}
			fp, detail, oc := c19rRun(c)
			r.Eval()
			r.Nontrivial(vx.JSON(c))
			if fp != "" && fp[:7] == "HARNESS" {
				r.HarnessError(fp + " " + detail)
				return
			}
			if fp != "" {
				r.Violation(fp, detail+"\ncase: "+vx.JSON(c), c)
				continue
			}
			r.Outcome(first + "/stall=" + fmt.Sprint(c.StallMS) + "ms/gap=" + fmt.Sprint(gap) + "ms: " + oc)
			r.Sample(c)
		}
	}
}
