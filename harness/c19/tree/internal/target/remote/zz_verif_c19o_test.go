package remote

// C19 (part "owner") — "handed to at most one delivery at a time", at the level
// of the remote target: which pooled mxConn a delivery works on is decided in
// connectionForDomain, not in the pool. 3-4 (thorough: up to 5) deliveries to one
// domain, each plain or REQUIRETLS, each a two-step sequence (Start+AddRcpt,
// then body+Commit or Abort); every interleaving of the steps of the deliveries
// is executed against the real target (real policy group, pool, smtpconn; the
// world satisfies REQUIRETLS). The steps are sequential calls of the harness,
// so an interleaving is a chosen order, not a schedule. After every step:
// (a) no connection object is held by two deliveries in progress, (b) none held
// by a delivery in progress is idle in the pool, (c) none is in the pool twice.

import (
	"context"
	"encoding/json"
	"fmt"
	"net"
	"strconv"
	"strings"
	"testing"

	"github.com/emersion/go-message/textproto"
	"github.com/emersion/go-smtp"
	"github.com/foxcpp/maddy/framework/buffer"
	maddydns "github.com/foxcpp/maddy/framework/dns"
	"github.com/foxcpp/maddy/framework/module"
	"github.com/foxcpp/maddy/internal/smtpconn/pool"
	"github.com/foxcpp/maddy/internal/verif/vx"
)

type c19oDelivery struct {
	Flag   string `json:"flag"`   // "" | requiretls | notls
	Finish string `json:"finish"` // commit | abort
	// TwoSpellings: the delivery has a second recipient whose domain is the same one in upper case
	TwoSpellings bool `json:"second_rcpt_upper_case_domain,omitempty"`
}

type c19oCase struct {
	Deliveries []c19oDelivery `json:"deliveries"`
	Order      []int          `json:"order"` // delivery index per step; the first occurrence is Start+AddRcpt, the second the finish
}

func c19oRun(c c19oCase) (fp, detail, outcome string) {
	cc := c05Case{
		Cfg:  c05Cfg{MTASTS: true, DNSSEC: true, Override: true},
		Dom:  []c05Dom{{STS: "enforce", MXAD: true, MX: []c05MX{{TLS: "valid", TLSA: "none", AD: true, Listed: true, Ext: true}}}},
		Hist: []c05Msg{{Doms: []int{0}}},
	}
	w, zones := c05World(cc)
	defer w.Close()
	srv, err := c05DNS(zones)
	if err != nil {
		return "HARNESS", "mockdns: " + err.Error(), ""
	}
	addr := srv.LocalAddr().(*net.UDPAddr)
	ext := maddydns.VerifExtResolver(addr.IP.String(), strconv.Itoa(addr.Port))
	ch := make(chan struct{})
	close(ch)
	tgt, err := c05Target(cc, w, zones, ext, func() <-chan struct{} { return ch })
	if err != nil {
		return "HARNESS", err.Error(), ""
	}
	defer tgt.Close()
	ctx := context.Background()
	hdr := textproto.Header{}
	hdr.Add("Subject", "c19o")
	live := map[int]*remoteDelivery{}
	started := map[int]bool{}
	reuse, fresh := 0, 0
	seen := map[*mxConn]bool{}
	check := func(step int) (string, string) {
		holder := map[*mxConn]int{}
		for i, rd := range live {
			for _, mc := range rd.connections {
				if j, dup := holder[mc]; dup && j == i {
					return "C19:owner:connection-held-under-two-keys", fmt.Sprintf("after step %d: delivery %d holds one connection object under two domain keys (it will be closed or returned to the pool twice)", step, i)
				} else if dup {
					return "C19:owner:one-connection-two-deliveries", fmt.Sprintf("after step %d: deliveries %d and %d, both in progress, work on the same connection object", step, j, i)
				}
				holder[mc] = i
			}
		}
		for key, idle := range pool.VerifIdle(tgt.pool) {
			dup := map[pool.Conn]bool{}
			for _, pc := range idle {
				if dup[pc] {
					return "C19:owner:connection-twice-in-pool", fmt.Sprintf("after step %d: the bucket of %s holds one connection object twice", step, key)
				}
				dup[pc] = true
				if mc, ok := pc.(*mxConn); ok {
					if i, held := holder[mc]; held {
						return "C19:owner:in-pool-while-in-use", fmt.Sprintf("after step %d: delivery %d (in progress) works on a connection that is idle in the pool (bucket %s)", step, i, key)
					}
				}
			}
		}
		return "", ""
	}
	for step, i := range c.Order {
		d := c.Deliveries[i]
		if !started[i] {
			started[i] = true
			meta := &module.MsgMetadata{ID: fmt.Sprintf("c19o-%d", i)}
			switch d.Flag {
			case "requiretls":
				meta.SMTPOpts.RequireTLS = true
			case "notls":
				meta.TLSRequireOverride = true
			}
			dl, err := tgt.Start(ctx, meta, fmt.Sprintf("m%d@sender.example", i))
			if err != nil {
				return "HARNESS", "Start: " + err.Error(), ""
			}
			rd := dl.(*remoteDelivery)
			if err := rd.AddRcpt(ctx, "u@"+c05Domain(0), smtp.RcptOptions{}); err != nil {
				return "HARNESS", fmt.Sprintf("delivery %d (%q): AddRcpt: %v", i, d.Flag, err), ""
			}
			if d.TwoSpellings {
				if err := rd.AddRcpt(ctx, "v@"+strings.ToUpper(c05Domain(0)), smtp.RcptOptions{}); err != nil {
					return "HARNESS", fmt.Sprintf("delivery %d: AddRcpt (upper-case domain): %v", i, err), ""
				}
			}
			for _, mc := range rd.connections {
				if seen[mc] {
					reuse++
				} else {
					fresh++
				}
				seen[mc] = true
			}
			live[i] = rd
		} else {
			rd := live[i]
			if d.Finish == "abort" {
				rd.Abort(ctx)
			} else {
				st := &rhStatus{}
				rd.BodyNonAtomic(ctx, st, hdr, buffer.MemoryBuffer{Slice: []byte("content " + strconv.Itoa(i) + "\r\n")})
				for rc, e := range st.errs {
					if e != nil {
						// a delivery whose commands were mixed with another's on one socket fails here
						delete(live, i)
						rd.Abort(ctx)
						if fp, det := check(step); fp != "" {
							return fp, det, ""
						}
						return "C19:owner:delivery-failed", fmt.Sprintf("delivery %d (%q) to a healthy MX failed for %s: %v", i, d.Flag, rc, e), ""
					}
				}
				rd.Commit(ctx)
			}
			delete(live, i)
		}
		if fp, det := check(step); fp != "" {
			return fp, det, ""
		}
	}
	return "", "", fmt.Sprintf("deliveries=%d connections opened=%d reused from the pool=%d", len(c.Deliveries), fresh, reuse)
}

func c19oOrders(n int) [][]int {
	var out [][]int
	left := make([]int, n)
	for i := range left {
		left[i] = 2
	}
	var rec func(cur []int)
	rec = func(cur []int) {
		if len(cur) == 2*n {
			out = append(out, append([]int{}, cur...))
			return
		}
		for i := 0; i < n; i++ {
			// deliveries start in index order (they are distinguished by their flags, enumerated separately)
			if left[i] == 2 && i > 0 && left[i-1] == 2 {
				continue
			}
			if left[i] > 0 {
				left[i]--
				rec(append(cur, i))
				left[i]++
			}
		}
	}
	rec(nil)
	return out
}

func TestVerifC19Owner(t *testing.T) {
	r := vx.Start("C19", "owner")
	defer r.Finish()
	r.Rule("real remote target (New + Init, real mx_auth policies, real pool and smtpconn) in a world that satisfies REQUIRETLS: 3-4 (thorough: up to 5) deliveries to one domain, each plain / REQUIRETLS / TLS-Required: No, finished by commit or abort, for three deliveries also with a second recipient naming the domain in upper case; every order of their start and finish steps (starts in index order); after every step no connection object is held by two deliveries in progress, none held by one is idle in the pool, none is in the pool twice, and no delivery to the healthy MX fails")
	if rp := r.Replay(); rp != nil {
		var c c19oCase
		if json.Unmarshal(rp, &c) != nil || len(c.Deliveries) == 0 {
			return
		}
		fp, detail, _ := c19oRun(c)
		r.Eval()
		if fp != "" && fp != "HARNESS" {
			r.Violation(fp, detail, c)
		}
		return
	}
	if r.Replaying() {
		return
	}
	flags := []string{"", "requiretls", "notls"}
	idx := 0
	run := func(n int, finishes []string) bool {
		orders := c19oOrders(n)
		// for three deliveries each may also name the domain twice in different letter case
		spell := 1
		if n == 3 {
			spell = 2
		}
		total := 1
		for i := 0; i < n; i++ {
			total *= len(flags) * len(finishes) * spell
		}
		for code := 0; code < total; code++ {
			ds := make([]c19oDelivery, n)
			x := code
			for i := range ds {
				ds[i].Flag = flags[x%len(flags)]
				x /= len(flags)
				ds[i].Finish = finishes[x%len(finishes)]
				x /= len(finishes)
				ds[i].TwoSpellings = x%spell == 1
				x /= spell
			}
			for _, o := range orders {
				idx++
				if !r.Mine(idx) {
					continue
				}
				c := c19oCase{Deliveries: ds, Order: o}
				fp, detail, oc := c19oRun(c)
				r.Eval()
				r.Nontrivial(vx.JSON(c))
				if fp == "HARNESS" {
					r.HarnessError(detail + " case: " + vx.JSON(c))
					return false
				}
				if fp != "" {
					r.Violation(fp, detail+"\ncase: "+vx.JSON(c), c)
					return false
				}
				r.Outcome(oc)
				if idx%199 == 0 {
					r.Sample(c)
				}
			}
		}
		return true
	}
	if vx.Thorough() {
		if run(3, []string{"commit", "abort"}) && run(4, []string{"commit", "abort"}) {
			run(5, []string{"commit"})
		}
	} else {
		if run(3, []string{"commit", "abort"}) {
			run(4, []string{"commit"})
		}
	}
}
