package parser

// C20 — configuration parsing never crashes, expands everything, bounds
// nesting and round-trips. Exhaustive token / line sequences; DESIGN.md §4 C20.

import (
	"encoding/json"
	"fmt"
	"os"
	"path/filepath"
	"regexp"
	"runtime"
	"strings"
	"testing"
	"time"
	"unicode"

	"github.com/foxcpp/maddy/internal/verif/vx"
)

// token-level atoms, joined by one space (the newline atom is a token too)
var c20Tokens = []string{
	"a", "b.c", "9x", "{", "}", "\n", `"q r"`, `"un`, "\\\n", "# c",
	"$(m)", "$(m) =", "$(u)", "x$(m)y", "(s)", "import s", "import nofile", "{env:V}",
	`""`, `"\""`, "\"x\\\ny\"",
}

// line-level atoms, each followed by a newline
var c20Lines = []string{
	"a b", "a {", "}", "b.c x {", "(s) {", "(t) {", "import s", "import t",
	"$(m) = v", "$(m) = $(u)", "$(m) = v w", "a $(m)", "a x$(m)y", "a \\", "c { }",
	"a \"}\"", "a \"x\\\ny\"",
}

type c20Case struct {
	Kind string `json:"kind"`
	Src  string `json:"src"`
}

var c20MacroRef = regexp.MustCompile(`\$\((m|u|s|t)\)`)

func c20ValidName(s string) bool {
	if s == "" {
		return false
	}
	rs := []rune(s)
	if unicode.IsDigit(rs[0]) {
		return false
	}
	for _, ch := range rs {
		if !unicode.IsLetter(ch) && !unicode.IsDigit(ch) && ch != '.' && ch != '-' && ch != '_' {
			return false
		}
	}
	return true
}

// c20Walk checks the tree invariants; returns a fingerprint suffix or "".
func c20Walk(nodes []Node, depth int, maxDepth *int) string {
	if depth > *maxDepth {
		*maxDepth = depth
	}
	for _, n := range nodes {
		if n.Macro {
			return "macro-node-left"
		}
		if n.Snippet {
			return "snippet-node-left"
		}
		if n.Name == "import" {
			return "import-left"
		}
		if !c20ValidName(n.Name) {
			return "bad-directive-name"
		}
		for _, a := range n.Args {
			if c20MacroRef.MatchString(a) {
				return "macro-reference-left"
			}
		}
		if w := c20Walk(n.Children, depth+1, maxDepth); w != "" {
			return w
		}
	}
	return ""
}

func c20ExpressibleArg(a string) bool {
	if a == "{" || a == "}" {
		return false
	}
	if strings.HasSuffix(a, `\`) || strings.Contains(a, "\\\"") {
		return false
	}
	if strings.Contains(a, "$(") || strings.Contains(a, "{env:") {
		return false
	}
	return true
}

func c20Expressible(nodes []Node) bool {
	for _, n := range nodes {
		if strings.HasPrefix(n.Name, "(") {
			return false
		}
		for i, a := range n.Args {
			if !c20ExpressibleArg(a) {
				return false
			}
			_ = i
		}
		if !c20Expressible(n.Children) {
			return false
		}
	}
	return true
}

func c20Print(sb *strings.Builder, nodes []Node, indent int) {
	for _, n := range nodes {
		sb.WriteString(strings.Repeat("\t", indent))
		sb.WriteString(n.Name)
		for _, a := range n.Args {
			sb.WriteString(" \"")
			sb.WriteString(strings.ReplaceAll(a, `"`, `\"`))
			sb.WriteString("\"")
		}
		if n.Children != nil {
			sb.WriteString(" {\n")
			c20Print(sb, n.Children, indent+1)
			sb.WriteString(strings.Repeat("\t", indent))
			sb.WriteString("}")
		}
		sb.WriteString("\n")
	}
}

func c20Same(a, b []Node) bool {
	if len(a) != len(b) {
		return false
	}
	for i := range a {
		if a[i].Name != b[i].Name || len(a[i].Args) != len(b[i].Args) || (a[i].Children == nil) != (b[i].Children == nil) {
			return false
		}
		for j := range a[i].Args {
			if a[i].Args[j] != b[i].Args[j] {
				return false
			}
		}
		if !c20Same(a[i].Children, b[i].Children) {
			return false
		}
	}
	return true
}

func c20Shape(nodes []Node) string {
	var sb strings.Builder
	for _, n := range nodes {
		fmt.Fprintf(&sb, "%s/%d", n.Name, len(n.Args))
		if n.Children != nil {
			sb.WriteString("{" + c20Shape(n.Children) + "}")
		}
		sb.WriteString(";")
	}
	return sb.String()
}

var c20Loc string

func c20PanicSite(p any) string {
	// top maddy frame of the panic: stable, defect-specific
	pcs := make([]uintptr, 40)
	n := runtime.Callers(3, pcs)
	fr := runtime.CallersFrames(pcs[:n])
	for {
		f, more := fr.Next()
		if strings.Contains(f.Function, "foxcpp/maddy") && !strings.Contains(f.Function, "c20") && !strings.Contains(f.Function, "/vx.") {
			fn := f.Function[strings.LastIndex(f.Function, "/")+1:]
			return fn
		}
		if !more {
			break
		}
	}
	return "unknown"
}

func c20Read(src string) (nodes []Node, err error, panicked any, site string) {
	defer func() {
		if p := recover(); p != nil {
			panicked = p
			site = c20PanicSite(p)
		}
	}()
	nodes, err = Read(strings.NewReader(src), c20Loc)
	return
}

func c20Check(r *vx.Run, kind, src string) {
	r.Eval()
	cs := c20Case{kind, src}
	nodes, err, p, site := c20Read(src)
	if p != nil {
		r.Outcome("panic")
		r.Violation("C20:panic:"+site, fmt.Sprintf("Read(%q) panicked: %v", src, p), cs)
		return
	}
	if err != nil {
		r.Outcome("error")
		return
	}
	r.Outcome("tree")
	md := 0
	if w := c20Walk(nodes, 1, &md); w != "" {
		r.Violation("C20:tree:"+w, fmt.Sprintf("Read(%q) returned %s", src, vx.JSON(c20Strip(nodes))), cs)
		return
	}
	if md > 300 {
		r.Violation("C20:tree:nesting-unbounded", fmt.Sprintf("depth %d", md), cs)
	}
	if len(nodes) > 0 {
		r.Nontrivial(c20Shape(nodes))
	}
	if c20Expressible(nodes) {
		var sb strings.Builder
		c20Print(&sb, nodes, 0)
		n2, err2, p2, _ := c20Read(sb.String())
		if p2 != nil || err2 != nil || !c20Same(nodes, n2) {
			r.Violation("C20:roundtrip", fmt.Sprintf("Read(%q) = %s; printed %q; re-read: %s err=%v panic=%v", src, vx.JSON(c20Strip(nodes)), sb.String(), vx.JSON(c20Strip(n2)), err2, p2), cs)
		}
		r.Count("roundtrips", 1)
	}
}

type c20N struct {
	N string   `json:"n"`
	A []string `json:"a,omitempty"`
	C []c20N   `json:"c,omitempty"`
	B bool     `json:"block,omitempty"`
}

func c20Strip(nodes []Node) []c20N {
	var out []c20N
	for _, n := range nodes {
		out = append(out, c20N{n.Name, n.Args, c20Strip(n.Children), n.Children != nil})
	}
	return out
}

func c20Seq(atoms []string, sep string, maxLen int, f func(idx int64, src string)) {
	var idx int64
	var rec func(prefix string, depth int)
	rec = func(prefix string, depth int) {
		f(idx, prefix)
		idx++
		if depth == maxLen {
			return
		}
		for _, a := range atoms {
			if depth == 0 {
				rec(a+sep, depth+1)
			} else {
				rec(prefix+a+sep, depth+1)
			}
		}
	}
	rec("", 0)
}

func TestVerifC20(t *testing.T) {
	r := vx.Start("C20", "parse")
	defer r.Finish()
	resume := vx.ResumeAfter()
	thorough := vx.Thorough()
	os.Clearenv()
	os.Setenv("V", "val")
	scratch, _ := os.MkdirTemp("", "verif-c20-")
	defer os.RemoveAll(scratch)
	c20Loc = filepath.Join(scratch, "x.conf")
	r.Rule("every sequence of <= T atoms over 21 token-level atoms and of <= L atoms over 17 line-level atoms (braces, quotes, escapes, an escaped line break inside quotes, continuations, comments, macro definitions/uses incl. undefined and empty, snippets with self and mutual imports, env placeholders), nesting ladders around the limit, every sequence of <= 4 atoms over 12 atoms that import files placed next to the configuration file (self-import, two-file cycle, .conf fall-back, import nested in a block of the imported file, file with snippet and macro, missing file), and every single-byte deletion/duplication of the two shipped configuration files; each is parsed by the real parser.Read under a panic/time/memory watchdog; oracle: returns; on success no Macro/Snippet/import node, no $(..) reference, valid names, depth bounded; print->parse round trip when expressible. Non-trivial: distinct shapes of successfully parsed non-empty trees")
	r.Assume("environment of the parsing process contains only V=val; file imports resolve in a scratch directory that holds only the files of the file-import family")
	r.StartWatchdog(20*time.Second, 1<<30, func(desc any, why string) {
		cs, _ := desc.(c20Case)
		fp := "C20:no-termination:other"
		if strings.Contains(cs.Src, "import") {
			fp = "C20:no-termination:import-expansion"
		}
		r.Violation(fp, fmt.Sprintf("Read(%q): %s", cs.Src, why), cs)
	})
	if rp := r.Replay(); rp != nil {
		var c c20Case
		if json.Unmarshal(rp, &c) != nil {
			r.HarnessError("bad replay")
			return
		}
		r.Begin(0, c)
		c20Check(r, c.Kind, c.Src)
		return
	}
	if r.Replaying() {
		return
	}
	T, L := 5, 5
	if thorough {
		T, L = 6, 6
	}
	r.Bound("token_atoms", len(c20Tokens))
	r.Bound("token_seq_len", T)
	r.Bound("line_atoms", len(c20Lines))
	r.Bound("line_seq_len", L)
	var base int64
	run := func(kind string) func(idx int64, src string) {
		return func(idx int64, src string) {
			g := base + idx
			if !r.Mine(int(g%1000003)) || g <= resume {
				return
			}
			cs := c20Case{kind, src}
			r.Begin(g, cs)
			c20Check(r, kind, src)
			if g%500009 == 11 {
				r.Sample(cs)
			}
		}
	}
	c20Seq(c20Tokens, " ", T, run("tokens"))
	base = 1 << 40
	c20Seq(c20Lines, "\n", L, run("lines"))
	base = 1 << 41
	// nesting ladders
	var ladders []string
	for _, n := range []int{1, 2, 200, 254, 255, 256, 257, 258, 300, 1000, 20000} {
		ladders = append(ladders, strings.Repeat("a {\n", n)+strings.Repeat("}\n", n))
		ladders = append(ladders, strings.Repeat("a {\n", n))
		ladders = append(ladders, strings.Repeat("}\n", n))
		ladders = append(ladders, "(s) {\n"+strings.Repeat("a {\n", n)+"import s\n"+strings.Repeat("}\n", n)+"}\nimport s\n")
	}
	for i, s := range ladders {
		run("ladder")(int64(i), s)
	}
	base = 1 << 43
	// imports of files next to the configuration file: cycles through one or two files (by
	// full name and through the ".conf" fall-back), an import nested in a block of the
	// imported file, a file that defines a snippet and a macro, a missing file
	for name, content := range map[string]string{
		"self.conf":  "import self.conf\n",
		"self2.conf": "a b\nimport self2\n",
		"ping.conf":  "p q\nimport pong.conf\n",
		"pong.conf":  "import ping\nr s\n",
		"deep.conf":  "blk {\nimport deep.conf\n}\n",
		"leaf.conf":  "x y\n(fs) {\nq r\n}\n$(fm) = v\nimport fs\n",
		"chain.conf": "import leaf.conf\nz $(fm)\n",
	} {
		if err := os.WriteFile(filepath.Join(scratch, name), []byte(content), 0o600); err != nil {
			r.HarnessError(err.Error())
			return
		}
	}
	fileAtoms := []string{"import self.conf", "import self2", "import ping.conf", "import deep.conf", "import leaf.conf", "import chain", "import missing.conf",
		"a {", "}", "(s) {", "import s", "a b"}
	r.Bound("file_import_atoms", len(fileAtoms))
	c20Seq(fileAtoms, "\n", 4, run("file-imports"))
	base = 1 << 42
	// byte-level mutations of the shipped files
	var idx int64
	for _, fn := range []string{"maddy.conf", "maddy.conf.docker"} {
		b, err := os.ReadFile(filepath.Join("..", "..", fn))
		if err != nil {
			r.HarnessError("cannot read shipped file " + fn + ": " + err.Error())
			continue
		}
		_, err, p, _ := c20Read(string(b))
		if err != nil || p != nil {
			r.Violation("C20:shipped:"+fn, fmt.Sprintf("shipped file does not parse: %v %v", err, p), c20Case{"shipped", string(b)})
		}
		run("shipped")(idx, string(b))
		idx++
		step := 1
		if !thorough {
			step = 3
		}
		for i := 0; i < len(b); i += step {
			run("mutation-del")(idx, string(b[:i])+string(b[i+1:]))
			idx++
			run("mutation-dup")(idx, string(b[:i+1])+string(b[i:]))
			idx++
		}
	}
}
