package smtp

// C14 (submission gate) — a submission endpoint accepts no mail transaction
// before a successful authentication: BFS over command sequences on the real
// submission endpoint with a real pass_table provider.

import (
	"encoding/base64"
	"encoding/json"
	"fmt"
	"strings"
	"testing"

	"github.com/foxcpp/maddy/framework/config"
	"github.com/foxcpp/maddy/framework/module"
	"github.com/foxcpp/maddy/internal/verif/vx"
)

type c14Provider struct{}

func (c14Provider) Name() string           { return "verif_auth" }
func (c14Provider) InstanceName() string   { return "vauth" }
func (c14Provider) Init(*config.Map) error { return nil }
func (c14Provider) AuthPlain(u, p string) error {
	if u == "alice" && p == "p1" {
		return nil
	}
	return module.ErrUnknownCredentials
}

type c14GCase struct {
	Cmds []string `json:"commands"`
	// ImmediateReject: the endpoint runs with defer_sender_reject no (MAIL opens the delivery at once)
	ImmediateReject bool `json:"immediate_sender_reject,omitempty"`
}

// c14Immediate: the world of the current BFS (defer_sender_reject no)
var c14Immediate bool

func c14b64(s string) string { return base64.StdEncoding.EncodeToString([]byte(s)) }

func c14Exec(cmds []string) (state string, fp, detail string, ended bool) {
	ehRegister()
	module.RegisterInstance(c14Provider{}, nil)
	c03InstallNoFaults()
	endp, l, err := ehEndpoint("submission", []config.Node{
		{Name: "auth", Args: []string{"&vauth"}},
		{Name: "sasl_login", Args: []string{"yes"}},
		{Name: "deliver_to", Args: []string{"&vt1"}},
		{Name: "defer_sender_reject", Args: []string{map[bool]string{false: "yes", true: "no"}[c14Immediate]}},
	})
	if err != nil {
		return "", "HARNESS:init", err.Error(), false
	}
	defer ehStop(endp, l)
	cl := l.dial()
	defer cl.c.Close()
	if g, err := cl.read(); err != nil || g.Code != 220 {
		return "", "HARNESS:greeting", fmt.Sprint(g, err), false
	}
	authed := false
	var log []string
	mail := false
	for _, c := range cmds {
		var rep ehReply
		var err error
		switch c {
		case "DATA":
			rep, err = cl.cmd("DATA")
			if rep.Code == 354 {
				cl.write("From: <alice@example.org>\r\nSubject: x\r\n\r\nhi\r\n.\r\n")
				rep, err = cl.read()
			}
		case "AUTH-LOGIN-OK", "AUTH-LOGIN-BAD":
			rep, err = cl.cmd("AUTH LOGIN")
			if rep.Code == 334 {
				rep, err = cl.cmd(c14b64("alice"))
			}
			if rep.Code == 334 {
				pw := "p1"
				if c == "AUTH-LOGIN-BAD" {
					pw = "nope"
				}
				rep, err = cl.cmd(c14b64(pw))
			}
		default:
			rep, err = cl.cmd(c)
		}
		if err != nil {
			return "", "C14:gate:hang", fmt.Sprintf("%q: %v", c, err), false
		}
		log = append(log, "C: "+c, "S: "+rep.String())
		if rep.Code == 0 || rep.Code == 421 {
			ended = true
			break
		}
		switch {
		case strings.HasPrefix(c, "AUTH"):
			if rep.Code == 235 {
				authed = true
			}
		case strings.HasPrefix(c, "EHLO"):
			if rep.Class() == 2 {
				mail = false
			}
		case strings.HasPrefix(c, "MAIL"):
			if rep.Class() == 2 {
				if !authed {
					return "", "C14:gate:mail-before-auth", "MAIL accepted without a successful AUTH\n" + strings.Join(log, "\n"), false
				}
				mail = true
			}
		case strings.HasPrefix(c, "RCPT"), c == "DATA":
			if rep.Class() == 2 && !authed {
				return "", "C14:gate:transaction-before-auth", c + " accepted without a successful AUTH\n" + strings.Join(log, "\n"), false
			}
			if c == "DATA" && rep.Code != 503 && rep.Code != 502 {
				mail = false
			}
		case c == "RSET":
			mail = false
		case c == "QUIT":
			ended = true
		}
	}
	ds, _ := ehT1.Snapshot()
	if !authed && len(ds) > 0 {
		return "", "C14:gate:delivery-before-auth", "a delivery was opened on the target without authentication\n" + strings.Join(log, "\n"), false
	}
	return fmt.Sprintf("authed=%v mail=%v dels=%d", authed, mail, min(len(ds), 3)), "", "", ended
}

func c03InstallNoFaults() {
	ehT1.Reset()
	ehT2.Reset()
	ehT1.Fault, ehT2.Fault = nil, nil
	ehCheck1.mu.Lock()
	ehCheck1.Verdict = nil
	ehCheck1.mu.Unlock()
}

func TestVerifC14Gate(t *testing.T) {
	r := vx.Start("C14", "gate")
	defer r.Finish()
	r.Rule("explicit-state BFS over command sequences {EHLO, AUTH PLAIN ok/bad/foreign authzid, AUTH LOGIN ok/bad, MAIL, RCPT, DATA, RSET, NOOP, QUIT} on a real submission endpoint (go-smtp over a pipe) with a password provider, with defer_sender_reject yes and no; invariant: no MAIL/RCPT/DATA is accepted and no delivery is opened in a state without a successful AUTH. Non-trivial: distinct command sequences")
	if rp := r.Replay(); rp != nil {
		var c c14GCase
		if json.Unmarshal(rp, &c) != nil {
			r.HarnessError("bad replay")
			return
		}
		c14Immediate = c.ImmediateReject
		_, fp, detail, _ := c14Exec(c.Cmds)
		r.Eval()
		if fp != "" {
			r.Violation(fp, detail, c)
		}
		return
	}
	if r.Replaying() {
		return
	}
	alpha := []string{
		"EHLO client.example",
		"AUTH PLAIN " + c14b64("\x00alice\x00p1"),
		"AUTH PLAIN " + c14b64("\x00alice\x00wrong"),
		"AUTH PLAIN " + c14b64("bob\x00alice\x00p1"),
		"AUTH-LOGIN-OK", "AUTH-LOGIN-BAD",
		"MAIL FROM:<alice@example.org>", "RCPT TO:<r1@t1.example>", "DATA", "RSET", "NOOP", "QUIT",
	}
	depth := 6
	if vx.Thorough() {
		depth = 8
	}
	var states, transitions int64
	idx := 0
	for _, c14Immediate = range []bool{false, true} {
		seen := map[string]bool{}
		frontier := [][]string{{}}
		for len(frontier) > 0 {
			h := frontier[0]
			frontier = frontier[1:]
			if len(h) >= depth {
				r.Cap("depth bound reached")
				continue
			}
			for _, c := range alpha {
				hist := append(append([]string{}, h...), c)
				idx++
				st, fp, detail, ended := c14Exec(hist)
				for try := 0; fp == "C14:gate:hang" && try < 2; try++ {
					// the 20 s last-resort deadline: believed only if it reproduces twice
					st, fp, detail, ended = c14Exec(hist)
				}
				if r.Mine(idx) || true {
					r.Eval()
					transitions++
					r.Nontrivial(fmt.Sprint(c14Immediate) + "|" + strings.Join(hist, "|"))
				}
				if strings.HasPrefix(fp, "HARNESS:") {
					r.HarnessError(fp + detail)
					return
				}
				if fp != "" {
					r.Violation(fp, detail, c14GCase{hist, c14Immediate})
					continue
				}
				if ended {
					continue
				}
				if !seen[st] {
					seen[st] = true
					states++
					frontier = append(frontier, hist)
					r.Sample(map[string]any{"commands": hist, "state": st, "immediate_sender_reject": c14Immediate})
				}
			}
		}
	}
	r.Count("states", states)
	r.Count("transitions", transitions)
	r.Count("traces_validated_against_impl", transitions)
}
