package pass_table

import "github.com/foxcpp/maddy/framework/module"

// VerifSetTable installs the credential table (verification-only accessor,
// injected by overlay).
func VerifSetTable(a *Auth, t module.Table) { a.table = t }
