package auth

// C14 (part "overlap") — overlapping authentication attempts. The account BFS
// drives one attempt at a time; here 2-3 attempts overlap inside the SASL
// layer in every order of entering and leaving the credential provider. The
// provider is gated by the harness, so the overlap pattern is chosen, not
// sampled: attempt i is started only after attempt i-1 is inside the provider
// (or has returned), and the attempts are released in a chosen permutation.
// Oracle: the decision and identity of every attempt are those of its own
// credentials.

import (
	"encoding/json"
	"errors"
	"fmt"
	"regexp"
	"strings"
	"sync"
	"testing"
	"time"

	"github.com/emersion/go-sasl"
	"github.com/foxcpp/maddy/framework/config"
	"github.com/foxcpp/maddy/framework/log"
	"github.com/foxcpp/maddy/framework/module"
	"github.com/foxcpp/maddy/internal/authz"
	"github.com/foxcpp/maddy/internal/table"
	"github.com/foxcpp/maddy/internal/verif/vx"
)

type c14oAttempt struct {
	Mech string `json:"mech"` // PLAIN | LOGIN | direct (SASLAuth.AuthPlain)
	User string `json:"user"`
	Pass string `json:"pass"`
}

type c14oCase struct {
	Attempts []c14oAttempt `json:"attempts"` // in the order they enter
	Release  []int         `json:"release"`  // order in which the provider lets them go
}

// gated provider: the reference credential map plus a gate per call
type c14oGate struct {
	mu      sync.Mutex
	creds   map[string]string
	entered chan int // call sequence numbers
	gates   []chan struct{}
	calls   []string
}

func (g *c14oGate) AuthPlain(user, pass string) error {
	g.mu.Lock()
	n := len(g.gates)
	ch := make(chan struct{})
	g.gates = append(g.gates, ch)
	g.calls = append(g.calls, user+"/"+pass)
	g.mu.Unlock()
	g.entered <- n
	<-ch
	if p, ok := g.creds[user]; ok && p == pass {
		return nil
	}
	return errors.New("invalid credentials")
}

const c14oWait = 5 * time.Second

func c14oRun(c c14oCase) (fp, detail, outcome string) {
	g := &c14oGate{creds: map[string]string{"alice": "right", "bob": "bobpw"}, entered: make(chan int, 16)}
	s := SASLAuth{Log: log.Logger{Out: log.NopOutput{}}, EnableLogin: true, Plain: []module.PlainAuth{g}, AuthNormalize: authz.NormalizeFuncs["auto"]}
	type res struct {
		ok bool
		id string
	}
	results := make([]chan res, len(c.Attempts))
	entered := 0
	coalesced := 0
	for i, a := range c.Attempts {
		i, a := i, a
		results[i] = make(chan res, 1)
		go func() {
			var r res
			switch a.Mech {
			case "PLAIN":
				r.ok, _ = c14RunSASL(s.CreateSASL(sasl.Plain, nil, func(id string, d ContextData) error { r.id = id; return nil }), []byte("\x00"+a.User+"\x00"+a.Pass))
			case "LOGIN":
				r.ok, _ = c14RunSASL(s.CreateSASL(sasl.Login, nil, func(id string, d ContextData) error { r.id = id; return nil }), []byte(a.User), []byte(a.Pass))
			default:
				r.ok = s.AuthPlain(a.User, a.Pass) == nil
				r.id = a.User
			}
			results[i] <- r
		}()
		// the next attempt starts once this one is inside the provider; an attempt
		// that never gets there (it is waiting for another attempt's verdict) is
		// noticed by the last-resort wait and the run goes on
		select {
		case <-g.entered:
			entered++
		case <-time.After(c14oWait):
			coalesced++
		}
	}
	// release in the chosen order (only calls that exist)
	for _, k := range c.Release {
		g.mu.Lock()
		var ch chan struct{}
		if k < len(g.gates) {
			ch = g.gates[k]
		}
		g.mu.Unlock()
		if ch != nil {
			close(ch)
		}
	}
	// calls that entered later (after a release) are let through as they come
	done := make(chan struct{})
	go func() {
		for {
			select {
			case n := <-g.entered:
				g.mu.Lock()
				ch := g.gates[n]
				g.mu.Unlock()
				select {
				case <-ch:
				default:
					close(ch)
				}
			case <-done:
				return
			}
		}
	}()
	defer close(done)
	for i, a := range c.Attempts {
		var r res
		select {
		case r = <-results[i]:
		case <-time.After(4 * c14oWait):
			return "C14:overlap:hang", fmt.Sprintf("attempt %d (%s %s) did not return", i, a.Mech, a.User), ""
		}
		want := g.creds[a.User] == a.Pass && a.Pass != ""
		if r.ok != want {
			kind := "wrong-credentials-accepted"
			if want {
				kind = "current-password-refused"
			}
			return "C14:overlap:" + kind, fmt.Sprintf("attempt %d: %s(%q, %q) = %v while %d other attempt(s) were in flight; the account's password is %q; provider calls: %v", i, a.Mech, a.User, a.Pass, r.ok, len(c.Attempts)-1, g.creds[a.User], g.calls), ""
		}
		if r.ok && r.id != a.User {
			return "C14:overlap:identity", fmt.Sprintf("attempt %d: %s(%q) reports identity %q", i, a.Mech, a.User, r.id), ""
		}
	}
	return "", "", fmt.Sprintf("attempts=%d inside-the-provider-together=%d", len(c.Attempts), entered)
}

func TestVerifC14Overlap(t *testing.T) {
	r := vx.Start("C14", "overlap")
	defer r.Finish()
	r.Rule("2-3 overlapping authentication attempts through the real SASL layer (PLAIN, LOGIN and SASLAuth.AuthPlain as used by IMAP) over a gated credential provider: credentials from {right password, wrong password, other account} x every order of entering the provider x every order of leaving it; oracle: each attempt's decision and identity are those of its own credentials. The overlap pattern is chosen by the harness (the provider holds every call until released), not sampled")
	r.Assume("an attempt that does not reach the provider within 5 s is taken to be waiting for another attempt; the run continues and is judged by the results only")
	if rp := r.Replay(); rp != nil {
		var c c14oCase
		if json.Unmarshal(rp, &c) != nil || len(c.Attempts) == 0 {
			return
		}
		fp, detail, _ := c14oRun(c)
		r.Eval()
		if fp != "" {
			r.Violation(fp, detail, c)
		}
		return
	}
	if r.Replaying() {
		return
	}
	creds := []c14oAttempt{{User: "alice", Pass: "right"}, {User: "alice", Pass: "wrong"}, {User: "bob", Pass: "bobpw"}, {User: "bob", Pass: "right"}}
	mechs := []string{"PLAIN", "LOGIN", "direct"}
	perms := func(n int) [][]int {
		var out [][]int
		var rec func(cur []int, used int)
		rec = func(cur []int, used int) {
			if len(cur) == n {
				out = append(out, append([]int{}, cur...))
				return
			}
			for i := 0; i < n; i++ {
				if used&(1<<i) == 0 {
					rec(append(cur, i), used|1<<i)
				}
			}
		}
		rec(nil, 0)
		return out
	}
	idx := 0
	do := func(as []c14oAttempt) {
		for _, rel := range perms(len(as)) {
			idx++
			if !r.Mine(idx) {
				continue
			}
			c := c14oCase{Attempts: as, Release: rel}
			fp, detail, oc := c14oRun(c)
			r.Eval()
			r.Nontrivial(vx.JSON(c))
			if fp != "" {
				r.Violation(fp, detail+"\ncase: "+vx.JSON(c), c)
				return
			}
			r.Outcome(oc)
			if idx%37 == 0 {
				r.Sample(c)
			}
		}
	}
	for _, m1 := range mechs {
		for _, m2 := range mechs {
			for i, a := range creds {
				for j, b := range creds {
					if i == j {
						continue
					}
					a, b := a, b
					a.Mech, b.Mech = m1, m2
					do([]c14oAttempt{a, b})
					if vx.Thorough() || (m1 == m2 && m1 == "PLAIN") {
						for k, c3 := range creds {
							if k == i || k == j {
								continue
							}
							c3.Mech = m1
							do([]c14oAttempt{a, b, c3})
						}
					}
				}
			}
		}
	}
	_ = strings.Join
}


// TestVerifC14Authzid (part "authzid"): an authorization identity different from
// the authenticated one is refused. Three accounts whose names are related
// (bob, bob@example.org, alice); every pair (authenticated name, authorization
// identity) from the account names and their spelling variants, with the right
// password of the authenticated account, through PLAIN under every
// normalisation / user-name map configuration.
func TestVerifC14Authzid(t *testing.T) {
	r := vx.Start("C14", "authzid")
	defer r.Finish()
	r.Rule("SASL PLAIN through the real SASL layer over a three-account provider (bob, bob@example.org, alice): authenticated name x authorization identity from {the account names, upper-case / fullwidth spellings, local part of a name with a domain, name with a domain appended, unknown} x 6 normalisation / user-name-map configurations, always with the right password of the authenticated account; oracle: the exchange succeeds only if the authorization identity is absent or byte-equal to the authenticated name, and the identity reported is the authenticated name")
	if r.Replaying() {
		return
	}
	creds := map[string]string{"bob": "pw-bob", "bob@example.org": "pw-bob-domain", "alice": "pw-alice"}
	g := &c14oOpen{creds: creds}
	names := []string{"bob", "bob@example.org", "alice"}
	variants := func(n string) []string {
		out := []string{n, strings.ToUpper(n), "ｂ" + n[1:], n + "@example.org", "someone-else"}
		if i := strings.Index(n, "@"); i > 0 {
			out = append(out, n[:i])
		}
		return out
	}
	for _, cfg := range c14SASLConfigs() {
		s := SASLAuth{Log: log.Logger{Out: log.NopOutput{}}, EnableLogin: true, Plain: []module.PlainAuth{g}, AuthNormalize: authz.NormalizeFuncs[cfg.Norm]}
		if cfg.Map != nil {
			s.AuthMap = c14MapTable{cfg.Map}
		}
		for _, authcid := range names {
			// does this configuration let authcid authenticate at all?
			base, _ := c14RunSASL(s.CreateSASL(sasl.Plain, nil, func(string, ContextData) error { return nil }), []byte("\x00"+authcid+"\x00"+creds[authcid]))
			var zs []string
			for _, n := range names {
				zs = append(zs, variants(n)...)
			}
			for _, authzid := range zs {
				var id string
				ok, _ := c14RunSASL(s.CreateSASL(sasl.Plain, nil, func(i string, d ContextData) error { id = i; return nil }), []byte(authzid+"\x00"+authcid+"\x00"+creds[authcid]))
				r.Eval()
				c := map[string]string{"config": cfg.Name, "authcid": authcid, "authzid": authzid}
				r.Nontrivial(vx.JSON(c))
				switch {
				case authzid != authcid && ok:
					r.Violation("C14:authzid:foreign-authorization-identity-accepted", fmt.Sprintf("config %s: PLAIN authzid=%q authcid=%q with the password of %q succeeded (identity reported %q)", cfg.Name, authzid, authcid, authcid, id), c)
					return
				case authzid == authcid && ok != base:
					r.Violation("C14:authzid:own-authorization-identity-changes-the-verdict", fmt.Sprintf("config %s: authcid %q alone = %v, with authzid = authcid %v", cfg.Name, authcid, base, ok), c)
					return
				}
				if ok {
					r.Outcome("own identity: accepted")
				} else if authzid == authcid {
					r.Outcome("own identity: account cannot authenticate under this configuration")
				} else {
					r.Outcome("foreign identity: refused")
				}
			}
		}
	}
}

// c14oOpen is an ungated provider over a fixed credential map.
type c14oOpen struct{ creds map[string]string }

func (g *c14oOpen) AuthPlain(user, pass string) error {
	if p, ok := g.creds[user]; ok && p == pass {
		return nil
	}
	return errors.New("invalid credentials")
}

// TestVerifC14Quoted (part "quoted"): user names that are e-mail addresses whose
// local part is a quoted string. The accounts BFS takes the expected normalised
// name from the normalisation function under test; here the names are chosen so
// that every e-mail normalisation leaves them unchanged (lower-case ASCII), so
// the reference needs no normalisation at all: "alice"@example.org and
// alice@example.org are two account names, as they are two keys of the
// credential table.
func TestVerifC14Quoted(t *testing.T) {
	r := vx.Start("C14", "quoted")
	defer r.Finish()
	r.Rule("real pass_table over an in-memory table holding every subset of the accounts {alice@example.org, \"alice\"@example.org, \"al.ice\"@example.org} (distinct passwords); every name x every password x {table level, SASL PLAIN, SASL LOGIN} x normalisation {auto, precis_casefold_email, precis_email, noop}; the names are fixed points of every e-mail normalisation, so the reference is the credential map itself: an attempt succeeds iff the account of exactly that name exists and has that password, and the identity reported is that name")
	if r.Replaying() {
		return
	}
	names := []string{"alice@example.org", `"alice"@example.org`, `"al.ice"@example.org`}
	pws := []string{"pw-plain", "pw-quoted", "pw-dot", "wrong"}
	idx := 0
	for mask := 0; mask < 1<<len(names); mask++ {
		idx++
		if !r.Mine(idx) {
			continue
		}
		var hist []c14Op
		ref := map[string]string{}
		for i, n := range names {
			if mask&(1<<i) != 0 {
				hist = append(hist, c14Op{"create-bcrypt", n, pws[i]})
				ref[n] = pws[i]
			}
		}
		a, _, err := c14Build(hist)
		if err != nil {
			r.HarnessError(err.Error())
			return
		}
		for _, n := range names {
			for _, p := range pws {
				cur, exists := ref[n]
				want := exists && cur == p
				c := map[string]any{"accounts": ref, "user": n, "password": p}
				r.Eval()
				r.Nontrivial(vx.JSON(c))
				if got := a.AuthPlain(n, p) == nil; got != want {
					r.Violation("C14:quoted:table", fmt.Sprintf("AuthPlain(%q, %q) = %v, reference %v (accounts %v)", n, p, got, want, ref), c)
					return
				}
				for _, nf := range []string{"auto", "precis_casefold_email", "precis_email", "noop"} {
					s := SASLAuth{Log: log.Logger{Out: log.NopOutput{}}, EnableLogin: true, Plain: []module.PlainAuth{a}, AuthNormalize: authz.NormalizeFuncs[nf]}
					var idP, idL string
					gotP, _ := c14RunSASL(s.CreateSASL(sasl.Plain, nil, func(id string, d ContextData) error { idP = id; return nil }), []byte("\x00"+n+"\x00"+p))
					gotL, _ := c14RunSASL(s.CreateSASL(sasl.Login, nil, func(id string, d ContextData) error { idL = id; return nil }), []byte(n), []byte(p))
					c["normalisation"] = nf
					switch {
					case gotP != want || gotL != want:
						kind := "wrong-credentials-accepted"
						if want {
							kind = "current-password-refused"
						}
						r.Violation("C14:quoted:"+kind, fmt.Sprintf("normalisation %s: PLAIN=%v LOGIN=%v for user %q password %q; reference %v (accounts %v)", nf, gotP, gotL, n, p, want, ref), c)
						return
					case want && (idP != n || idL != n):
						r.Violation("C14:quoted:identity", fmt.Sprintf("normalisation %s: user %q authenticated as PLAIN %q / LOGIN %q", nf, n, idP, idL), c)
						return
					}
					if want {
						r.Outcome("accepted")
					} else {
						r.Outcome("refused")
					}
				}
			}
		}
	}
}

// TestVerifC14RegexpMap (part "regexpmap"): auth_map backed by the real table.regexp
// (expression "(.+)@example\.org", replacement "$1", full_match yes / no). The reference
// maps a user name to the expansion of the replacement for the first match and nothing
// else (text outside the match does not belong to the mapped name), then looks the
// account up in the credential map.
func TestVerifC14RegexpMap(t *testing.T) {
	r := vx.Start("C14", "regexpmap")
	defer r.Finish()
	r.Rule("real pass_table (accounts alice, bob, alice.evil, bob-x with distinct passwords) behind the real SASL layer whose auth_map is a real table.regexp \"(.+)@example\\.org\" -> \"$1\" with full_match {yes, no}; user names {alice@example.org, bob@example.org, alice@example.org.evil, bob@example.org-x, x-alice@example.org, alice, carol@example.org} x every password x {PLAIN, LOGIN} under normalisation noop; reference: the mapped name is the first capture group of the first match (whole-string match when full_match is on), no match = refused; an attempt succeeds iff the mapped account exists with that password and the identity reported is the mapped name")
	if r.Replaying() {
		return
	}
	ref := map[string]string{"alice": "pw-alice", "bob": "pw-bob", "alice.evil": "pw-evil", "bob-x": "pw-bobx", "x-alice": "pw-xalice"}
	var hist []c14Op
	for _, n := range []string{"alice", "bob", "alice.evil", "bob-x", "x-alice"} {
		hist = append(hist, c14Op{"create-bcrypt", n, ref[n]})
	}
	a, _, err := c14Build(hist)
	if err != nil {
		r.HarnessError(err.Error())
		return
	}
	users := []string{"alice@example.org", "bob@example.org", "alice@example.org.evil", "bob@example.org-x", "x-alice@example.org", "alice", "carol@example.org"}
	pws := []string{"pw-alice", "pw-bob", "pw-evil", "pw-bobx", "pw-xalice", "wrong"}
	for _, full := range []string{"yes", "no"} {
		mod, err := table.NewRegexp("table.regexp", "", nil, []string{`(.+)@example\.org`, "$1"})
		if err != nil {
			r.HarnessError(err.Error())
			return
		}
		tbl := mod.(*table.Regexp)
		if err := tbl.Init(config.NewMap(nil, config.Node{Children: []config.Node{{Name: "full_match", Args: []string{full}}}})); err != nil {
			r.HarnessError(err.Error())
			return
		}
		expr := `(.+)@example\.org`
		if full == "yes" {
			expr = "^(?:" + expr + ")$"
		}
		re := regexp.MustCompile(expr)
		s := SASLAuth{Log: log.Logger{Out: log.NopOutput{}}, EnableLogin: true, Plain: []module.PlainAuth{a}, AuthNormalize: authz.NormalizeFuncs["noop"], AuthMap: tbl}
		for _, u := range users {
			mapped, ok := "", false
			if m := re.FindStringSubmatch(u); m != nil {
				mapped, ok = m[1], true
			}
			for _, p := range pws {
				want := ok && ref[mapped] == p
				c := map[string]any{"full_match": full, "user": u, "password": p, "mapped_to": mapped}
				r.Eval()
				r.Nontrivial(vx.JSON(c))
				var idP, idL string
				gotP, _ := c14RunSASL(s.CreateSASL(sasl.Plain, nil, func(id string, d ContextData) error { idP = id; return nil }), []byte("\x00"+u+"\x00"+p))
				gotL, _ := c14RunSASL(s.CreateSASL(sasl.Login, nil, func(id string, d ContextData) error { idL = id; return nil }), []byte(u), []byte(p))
				if gotP != want || gotL != want {
					kind := "wrong-credentials-accepted"
					if want {
						kind = "current-password-refused"
					}
					r.Violation("C14:regexpmap:"+kind, fmt.Sprintf("full_match %s: PLAIN=%v LOGIN=%v for user %q password %q; the map sends it to account %q (exists: %v), reference %v", full, gotP, gotL, u, p, mapped, ref[mapped] != "", want), c)
					return
				}
				if want {
					r.Outcome("accepted")
				} else {
					r.Outcome("refused")
				}
				_, _ = idP, idL
			}
		}
	}
}
