package auth

// C14 (accounts part) — password authentication succeeds only with the current
// password of the account. Explicit-state BFS over create / set-password /
// delete on the real pass_table module (in-memory mutable table); after every
// transition every user spelling x password is authenticated through the real
// table module, and through the real SASL layer (PLAIN and LOGIN, with user-name
// maps and normalisation settings), and compared with a reference credential map.

import (
	"context"
	"encoding/json"
	"fmt"
	"sort"
	"strings"
	"testing"

	"github.com/emersion/go-sasl"
	"github.com/foxcpp/maddy/framework/log"
	"github.com/foxcpp/maddy/framework/module"
	"github.com/foxcpp/maddy/internal/auth/pass_table"
	"github.com/foxcpp/maddy/internal/authz"
	"github.com/foxcpp/maddy/internal/verif/vx"
	"golang.org/x/text/secure/precis"
	"golang.org/x/text/unicode/norm"
)

type c14Table struct{ m map[string]string }

func (t *c14Table) Lookup(ctx context.Context, k string) (string, bool, error) {
	v, ok := t.m[k]
	return v, ok, nil
}
func (t *c14Table) Keys() ([]string, error) {
	var ks []string
	for k := range t.m {
		ks = append(ks, k)
	}
	sort.Strings(ks)
	return ks, nil
}
func (t *c14Table) RemoveKey(k string) error { delete(t.m, k); return nil }
func (t *c14Table) SetKey(k, v string) error { t.m[k] = v; return nil }

type c14Op struct {
	Kind string `json:"op"` // create-bcrypt | create-argon2 | create-default | set | delete
	User string `json:"user"`
	Pass string `json:"pass"`
}

type c14Case struct {
	History []c14Op `json:"history"`
}

var (
	c14Long = strings.Repeat("x", 73)
)

func c14Users(thorough bool) []string {
	us := []string{"alice", "ALICE", "ａlice", "bob"}
	if thorough {
		us = append(us, norm.NFC.String("renée"), norm.NFD.String("renée"))
	}
	return us
}

func c14Passwords(thorough bool) []string {
	// "a\u0301\u00a0z": not in NFC and with a non-ASCII space, i.e. different from every
	// "prepared" (PRECIS OpaqueString) form of itself: passwords are compared as given
	ps := []string{"p1", "", c14Long, "a\u0301\u00a0z"}
	if thorough {
		ps = append(ps, "p2", "pässwörd✓", "\u00e1 z")
	}
	return ps
}

func c14Key(u string) (string, bool) {
	k, err := precis.UsernameCaseMapped.CompareKey(u)
	return k, err == nil
}

// reference credential map
type c14Ref map[string]string

func (r c14Ref) clone() c14Ref {
	n := c14Ref{}
	for k, v := range r {
		n[k] = v
	}
	return n
}

func (r c14Ref) apply(op c14Op) {
	k, ok := c14Key(op.User)
	if !ok {
		return
	}
	bcryptOK := len(op.Pass) <= 72
	switch op.Kind {
	case "create-bcrypt", "create-default":
		if _, exists := r[k]; !exists && bcryptOK {
			r[k] = op.Pass
		}
	case "create-argon2":
		if _, exists := r[k]; !exists {
			r[k] = op.Pass
		}
	case "set":
		if bcryptOK {
			r[k] = op.Pass
		}
	case "delete":
		delete(r, k)
	}
}

func (r c14Ref) canon() string {
	var ks []string
	for k, v := range r {
		ks = append(ks, fmt.Sprintf("%s=%q", k, v))
	}
	sort.Strings(ks)
	return strings.Join(ks, ",")
}

func c14Build(h []c14Op) (*pass_table.Auth, c14Ref, error) {
	m, err := pass_table.New("auth.pass_table", "verif", nil, nil)
	if err != nil {
		return nil, nil, err
	}
	a := m.(*pass_table.Auth)
	pass_table.VerifSetTable(a, &c14Table{m: map[string]string{}})
	ref := c14Ref{}
	for _, op := range h {
		switch op.Kind {
		case "create-bcrypt":
			a.CreateUserHash(op.User, op.Pass, pass_table.HashBcrypt, pass_table.HashOpts{BcryptCost: 4})
		case "create-argon2":
			a.CreateUserHash(op.User, op.Pass, pass_table.HashArgon2, pass_table.HashOpts{Argon2Time: 1, Argon2Memory: 8, Argon2Threads: 1})
		case "create-default":
			a.CreateUser(op.User, op.Pass)
		case "set":
			a.SetUserPassword(op.User, op.Pass)
		case "delete":
			a.DeleteUser(op.User)
		case "auth":
			// a login attempt in the middle of the history: no effect on the reference,
			// whatever it leaves behind in the module is part of the state under test
			a.AuthPlain(op.User, op.Pass)
		}
		ref.apply(op)
	}
	return a, ref, nil
}

// c14PreLogins: login attempts worth making before an operation in a state.
func c14PreLogins(ref c14Ref, users []string) []c14Op {
	var out []c14Op
	for _, u := range users {
		k, ok := c14Key(u)
		if !ok {
			continue
		}
		if p, exists := ref[k]; exists {
			out = append(out, c14Op{"auth", u, p})
			if u == k {
				out = append(out, c14Op{"auth", u, p + "-wrong"})
			}
		}
	}
	return out
}

type c14MapTable struct{ m map[string]string }

func (t c14MapTable) Lookup(ctx context.Context, k string) (string, bool, error) {
	v, ok := t.m[k]
	return v, ok, nil
}

type c14SASLCfg struct {
	Name string
	Map  map[string]string // nil: no auth_map
	Norm string
}

func c14SASLConfigs() []c14SASLCfg {
	identity := map[string]string{"alice": "alice", "bob": "bob", "renée": "renée"}
	chain := map[string]string{"alice": "bob", "bob": "alice", "carol": "alice"}
	return []c14SASLCfg{
		{"nomap/auto", nil, "auto"},
		{"nomap/precis_casefold", nil, "precis_casefold"},
		{"nomap/noop", nil, "noop"},
		{"identity/auto", identity, "auto"},
		{"chain/auto", chain, "auto"},
		{"chain/noop", chain, "noop"},
	}
}

func c14RunSASL(srv sasl.Server, steps ...[]byte) (bool, error) {
	var err error
	done := false
	_, done, err = srv.Next(nil)
	for _, s := range steps {
		if done || err != nil {
			break
		}
		_, done, err = srv.Next(s)
	}
	return done && err == nil, err
}

// c14Observe compares the implementation with the reference in the state reached.
func c14Observe(r *vx.Run, a *pass_table.Auth, ref c14Ref, cs c14Case, users, passwords []string, full bool) bool {
	bad := func(kind, f string, x ...any) bool {
		r.Violation("C14:"+kind, fmt.Sprintf(f, x...)+fmt.Sprintf("\nhistory: %s\nreference accounts: %s", vx.JSON(cs.History), ref.canon()), cs)
		return false
	}
	// table level: every spelling x every password
	for _, u := range users {
		k, kok := c14Key(u)
		for _, p := range passwords {
			r.Count("authentications", 1)
			err := a.AuthPlain(u, p)
			cur, exists := ref[k]
			want := kok && exists && cur == p
			if (err == nil) != want {
				if want {
					return bad("current-password-refused", "AuthPlain(%q, %q) = %v; the account %q has that password", u, p, err, k)
				}
				return bad("wrong-credentials-accepted", "AuthPlain(%q, %q) succeeded; reference: account %q exists=%v password %q", u, p, k, exists, cur)
			}
		}
	}
	// SASL level
	for _, cfg := range c14SASLConfigs() {
		s := SASLAuth{Log: log.Logger{Out: log.NopOutput{}}, EnableLogin: true, Plain: []module.PlainAuth{a}, AuthNormalize: authz.NormalizeFuncs[cfg.Norm]}
		if cfg.Map != nil {
			s.AuthMap = c14MapTable{cfg.Map}
		}
		sus := users
		if !full {
			sus = []string{"alice", "ALICE", "bob"}
		}
		for _, u := range sus {
			for _, p := range passwords {
				// reference: normalise, map once, look up the account
				nu, nerr := authz.NormalizeFuncs[cfg.Norm](u)
				target, ok := nu, nerr == nil
				if ok && cfg.Map != nil {
					target, ok = cfg.Map[nu]
				}
				want := false
				if ok {
					if k, kok := c14Key(target); kok {
						cur, exists := ref[k]
						want = exists && cur == p
					}
				}
				var idPlain, idLogin string
				gotPlain, _ := c14RunSASL(s.CreateSASL(sasl.Plain, nil, func(id string, d ContextData) error { idPlain = id; return nil }), []byte("\x00"+u+"\x00"+p))
				gotLogin, _ := c14RunSASL(s.CreateSASL(sasl.Login, nil, func(id string, d ContextData) error { idLogin = id; return nil }), []byte(u), []byte(p))
				r.Count("authentications", 2)
				if gotPlain != want {
					kind := "sasl-plain-accepts-wrong-credentials"
					if want {
						kind = "sasl-plain-refuses-current-password"
					}
					return bad(kind, "config %s: PLAIN(%q, %q) = %v, reference %v (auth target %q)", cfg.Name, u, p, gotPlain, want, target)
				}
				if gotLogin != gotPlain {
					return bad("plain-login-disagree", "config %s: user %q password %q: PLAIN=%v LOGIN=%v (reference %v, auth target %q)", cfg.Name, u, p, gotPlain, gotLogin, want, target)
				}
				if gotPlain && gotLogin && idPlain != idLogin {
					return bad("plain-login-identity-differs", "config %s: user %q: PLAIN reports identity %q, LOGIN reports %q", cfg.Name, u, idPlain, idLogin)
				}
				if want && p == passwords[0] {
					// authorization identity different from the authenticated one is refused
					other, _ := c14RunSASL(s.CreateSASL(sasl.Plain, nil, func(string, ContextData) error { return nil }), []byte("someone-else\x00"+u+"\x00"+p))
					same, _ := c14RunSASL(s.CreateSASL(sasl.Plain, nil, func(string, ContextData) error { return nil }), []byte(u+"\x00"+u+"\x00"+p))
					if other {
						return bad("foreign-authzid-accepted", "config %s: PLAIN with authzid someone-else for %q accepted", cfg.Name, u)
					}
					if !same {
						return bad("own-authzid-refused", "config %s: PLAIN with authzid = authcid %q refused", cfg.Name, u)
					}
				}
			}
		}
	}
	return true
}

func TestVerifC14(t *testing.T) {
	r := vx.Start("C14", "accounts")
	defer r.Finish()
	thorough := vx.Thorough()
	users, passwords := c14Users(thorough), c14Passwords(thorough)
	r.Rule("explicit-state BFS over account operations {create (bcrypt, argon2, default), set-password, delete} x user spellings (case, fullwidth, NFC/NFD) x passwords (incl. empty, 73 bytes, non-ASCII) on the real pass_table module over an in-memory mutable table; successor = fresh module + replay of the operation history + one operation; state = reference credential map; every transition is also taken after a login attempt (in the first two levels: every successful spelling and one failing attempt per account; deeper: those on the account a following password change or deletion addresses); after every transition every spelling x password is authenticated at table level and through the real SASL layer (PLAIN and LOGIN driven via the sasl.Server interface) under 6 auth_map / normalisation configurations and compared with the reference (map applied once, identity equal for both mechanisms, foreign authorization identity refused)")
	r.Assume("bcrypt work factor lowered to the minimum through a build-time patch of the cost constant (the property does not depend on it)")
	if rp := r.Replay(); rp != nil {
		var c c14Case
		if json.Unmarshal(rp, &c) != nil {
			r.HarnessError("bad replay")
			return
		}
		a, ref, err := c14Build(c.History)
		if err != nil {
			r.HarnessError(err.Error())
			return
		}
		r.Eval()
		c14Observe(r, a, ref, c, c14Users(true), c14Passwords(true), true)
		return
	}
	if r.Replaying() {
		return
	}
	var ops []c14Op
	for _, u := range users {
		for _, p := range passwords {
			for _, k := range []string{"create-bcrypt", "create-argon2", "create-default", "set"} {
				ops = append(ops, c14Op{k, u, p})
			}
		}
		ops = append(ops, c14Op{"delete", u, ""})
	}
	r.Bound("operations", len(ops))
	seen := map[string]bool{"": true}
	frontier := [][]c14Op{{}}
	var states, transitions int64 = 1, 0
	maxDepth := 0
	idx := 0
	for len(frontier) > 0 {
		h := frontier[0]
		frontier = frontier[1:]
		for _, op := range ops {
			hist := append(append([]c14Op{}, h...), op)
			// the graph is computed by every shard (cheap: reference only); the expensive
			// observation of a transition is done by the shard that owns it
			ref := c14Ref{}
			for _, o := range hist {
				ref.apply(o)
			}
			idx++
			if r.Mine(idx) {
				// the same transition taken after a login attempt (successful under every
				// spelling of every account of the state, and one failing attempt per account)
				refH := c14Ref{}
				for _, o := range h {
					refH.apply(o)
				}
				pres := c14PreLogins(refH, users)
				if len(h) > 1 {
					// beyond the first two levels: only login attempts on the account that a
					// following password change or deletion addresses
					var keep []c14Op
					if op.Kind == "set" || op.Kind == "delete" {
						ok, _ := c14Key(op.User)
						for _, pre := range pres {
							if pk, _ := c14Key(pre.User); pk == ok {
								keep = append(keep, pre)
							}
						}
					}
					pres = keep
				}
				for _, pre := range pres {
					hv := append(append(append([]c14Op{}, h...), pre), op)
					av, refv, err := c14Build(hv)
					if err != nil {
						r.HarnessError(err.Error())
						return
					}
					r.Eval()
					transitions++
					r.Count("transitions_after_login", 1)
					csv := c14Case{hv}
					r.Nontrivial(vx.JSON(csv))
					if !c14Observe(r, av, refv, csv, users, passwords, false) {
						break
					}
				}
				a, ref2, err := c14Build(hist)
				if err != nil {
					r.HarnessError(err.Error())
					return
				}
				r.Eval()
				transitions++
				cs := c14Case{hist}
				if len(ref2) > 0 {
					r.Nontrivial(vx.JSON(cs))
				}
				// thorough tier: all spellings go through the SASL layer when the transition reaches a
				// state for the first time; the table-level observation is always complete
				if c14Observe(r, a, ref2, cs, users, passwords, thorough && !seen[ref.canon()]) {
					r.Outcome(fmt.Sprintf("%s -> %d account(s), complete observation agrees with the reference", op.Kind, len(ref2)))
				}
				if idx%397 == 0 {
					r.Sample(cs)
				}
			}
			cn := ref.canon()
			if !seen[cn] {
				seen[cn] = true
				states++
				if len(hist) > maxDepth {
					maxDepth = len(hist)
				}
				frontier = append(frontier, hist)
			}
		}
	}
	if r.Shard == 0 {
		r.Count("states", states)
	}
	r.Count("transitions", transitions)
	r.Count("traces_validated_against_impl", transitions)
	r.MaxCount("max_depth", int64(maxDepth))
}
