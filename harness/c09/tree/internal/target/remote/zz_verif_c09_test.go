package remote

// C09 (remote target) — per-recipient results name exactly the recipients that
// were accepted, under the address that was given: histories of transactions
// through the real remote target (pooled connections) in front of scripted MX
// servers (real go-smtp servers over pipes).

import (
	"context"
	"encoding/json"
	"fmt"
	"net"
	"sort"
	"strings"
	"testing"

	"github.com/emersion/go-message/textproto"
	"github.com/emersion/go-smtp"
	"github.com/foxcpp/go-mockdns"
	"github.com/foxcpp/maddy/framework/buffer"
	"github.com/foxcpp/maddy/framework/module"
	"github.com/foxcpp/maddy/internal/verif/peers"
	"github.com/foxcpp/maddy/internal/verif/vx"
)

type c09Case struct {
	UTF8Server bool       `json:"server_smtputf8"`
	Fault      string     `json:"fault"` // "", "rcpt:<addr>", "data4", "data5", "drop-data"
	History    [][]string `json:"history"`
	UTF8Msg    bool       `json:"message_smtputf8"`
	// NullFrom: index of the transaction sent with the null reverse-path (a bounce); -1 / absent: none
	NullFrom *int `json:"null_sender_transaction,omitempty"`
}

var c09Alphabet = []string{"a@example.org", "A2@EXAMPLE.ORG", "b@пример.рф", "c@xn--e1afmkfd.xn--p1ai", "ü@example.org", "d@example.org"}

var c09Outcome string // observation class of the last run (vacuity guard)

func c09Run(c c09Case) (string, string) {
	c09Outcome = ""
	w := peers.NewWorld(rhPKI)
	defer w.Close()
	reply := func(host string) func(stage, arg string) *smtp.SMTPError {
		return func(stage, arg string) *smtp.SMTPError {
			switch {
			case strings.HasPrefix(c.Fault, "mail") && stage == "mail":
				// "mail5:<host>:<n>": this MX refuses the MAIL command of the n-th transaction
				p := strings.Split(c.Fault, ":")
				if len(p) == 3 && p[1] == host && strings.HasPrefix(arg, "sender"+p[2]+"@") {
					if p[0] == "mail4" {
						return peers.Err(451, [3]int{4, 7, 1}, "sender deferred")
					}
					return peers.Err(550, [3]int{5, 7, 1}, "sender refused")
				}
			case strings.HasPrefix(c.Fault, "rcpt:") && stage == "rcpt" && strings.EqualFold(arg, c.Fault[5:]):
				return peers.Err(550, [3]int{5, 1, 1}, "no such user")
			case strings.HasPrefix(c.Fault, "rcpt421:") && stage == "rcpt" && strings.EqualFold(arg, c.Fault[8:]):
				return peers.Err(421, [3]int{4, 4, 2}, "closing the channel")
			case c.Fault == "data4" && stage == "data":
				return peers.Err(451, [3]int{4, 3, 0}, "try later")
			case c.Fault == "data5" && stage == "data":
				return peers.Err(554, [3]int{5, 6, 0}, "content refused")
			}
			return nil
		}
	}
	drop := ""
	if c.Fault == "drop-data" {
		drop = "data"
	}
	var dropFn func(stage, arg string) bool
	if strings.HasPrefix(c.Fault, "droprcpt:") {
		// the connection is lost when the RCPT command for this address arrives
		dropFn = func(stage, arg string) bool { return stage == "rcpt" && strings.EqualFold(arg, c.Fault[9:]) }
	}
	for _, h := range []string{"mx.example.org", "mx.xn--e1afmkfd.xn--p1ai"} {
		w.Add(peers.Script{Host: h, SMTPUTF8: c.UTF8Server, Reply: reply(h), DropAt: drop, Drop: dropFn})
	}
	zones := map[string]mockdns.Zone{
		"example.org.":              {MX: []net.MX{{Host: "mx.example.org.", Pref: 10}}},
		"mx.example.org.":           {A: []string{"127.0.0.1"}},
		"пример.рф.":                {MX: []net.MX{{Host: "mx.xn--e1afmkfd.xn--p1ai.", Pref: 10}}},
		"xn--e1afmkfd.xn--p1ai.":    {MX: []net.MX{{Host: "mx.xn--e1afmkfd.xn--p1ai.", Pref: 10}}},
		"mx.xn--e1afmkfd.xn--p1ai.": {A: []string{"127.0.0.1"}},
	}
	tgt := rhTarget(w, zones, nil)
	defer tgt.Close()
	rhErrs = nil
	hdr := textproto.Header{}
	hdr.Add("Subject", "c09")
	for ti, rcpts := range c.History {
		ctx := context.Background()
		meta := &module.MsgMetadata{ID: fmt.Sprintf("c09-%d", ti), SMTPOpts: smtp.MailOptions{UTF8: c.UTF8Msg}}
		from := fmt.Sprintf("sender%d@origin.example", ti+1)
		if c.NullFrom != nil && *c.NullFrom == ti {
			from = ""
		}
		d, err := tgt.Start(ctx, meta, from)
		if err != nil {
			return "C09:remote:start-failed", err.Error()
		}
		var accepted []string
		for _, r := range rcpts {
			err := d.AddRcpt(ctx, r, smtp.RcptOptions{})
			rhNoteErr("AddRcpt "+r, err)
			if err == nil {
				accepted = append(accepted, r)
			}
		}
		st := &rhStatus{}
		if len(accepted) > 0 {
			d.(module.PartialDelivery).BodyNonAtomic(ctx, st, hdr, buffer.MemoryBuffer{Slice: []byte("hi\r\n")})
			for r, e := range st.errs {
				rhNoteErr("status "+r, e)
			}
		}
		nfail := 0
		for _, e := range st.errs {
			if e != nil {
				nfail++
			}
		}
		c09Outcome += fmt.Sprintf("[offered=%d accepted=%d failed-status=%d]", len(rcpts), len(accepted), nfail)
		got := append([]string{}, st.calls...)
		sort.Strings(got)
		want := append([]string{}, accepted...)
		sort.Strings(want)
		if strings.Join(got, "\x00") != strings.Join(want, "\x00") {
			kind := "status-keys-differ"
			extra, missing := "", ""
			wm := map[string]int{}
			for _, x := range want {
				wm[x]++
			}
			for _, x := range got {
				if wm[x] == 0 {
					extra = x
				} else {
					wm[x]--
				}
			}
			for x, n := range wm {
				if n > 0 {
					missing = x
				}
			}
			switch {
			case extra != "" && ti > 0 && c09InEarlier(c.History[:ti], extra):
				kind = "status-for-earlier-transaction"
			case extra != "" && missing != "":
				kind = "status-under-converted-address"
			case missing != "":
				kind = "accepted-recipient-without-status"
			case extra != "":
				kind = "status-for-foreign-address"
			}
			d.Abort(ctx)
			return "C09:remote:" + kind, fmt.Sprintf("transaction %d: AddRcpt accepted %q, statuses were set for %q", ti+1, want, got)
		}
		if len(accepted) > 0 {
			d.Commit(ctx)
		} else {
			d.Abort(ctx)
		}
	}
	if len(rhErrs) > 0 {
		return "C16:remote:incoherent-error", strings.Join(rhErrs, "; ")
	}
	return "", ""
}

func c09InEarlier(h [][]string, a string) bool {
	for _, t := range h {
		for _, r := range t {
			if r == a {
				return true
			}
		}
	}
	return false
}

func TestVerifC09(t *testing.T) {
	r := vx.Start("C09", "remote")
	defer r.Finish()
	r.Rule("histories of 1-2 (quick) / 1-3 (thorough) consecutive transactions through one real remote target (pooled connections) to scripted MX servers for two recipient domains; recipient lists of 1-2 from {ASCII, upper-case, IDN U-label, A-label, non-ASCII local part, second mailbox}; next hop with / without SMTPUTF8; message with / without SMTPUTF8; second transaction with an ordinary or the null sender; faults {none, RCPT refused for one address, DATA 4xx, DATA 5xx, connection dropped at DATA, connection dropped at the RCPT of one address, 421 at the RCPT of one address, MAIL refused (5xx / 4xx) by one of the two MX servers in the first or the second transaction (on a new or on the pooled connection)}; oracle: the multiset of SetStatus keys of each transaction equals, as exact strings, the addresses for which AddRcpt returned nil in that transaction. Non-trivial: distinct cases with a fault, a conversion or a reused connection")
	if rp := r.Replay(); rp != nil {
		var c c09Case
		if json.Unmarshal(rp, &c) != nil {
			r.HarnessError("bad replay")
			return
		}
		fp, detail := c09Run(c)
		r.Eval()
		if fp != "" {
			r.Violation(fp, detail, c)
		}
		return
	}
	if r.Replaying() {
		return
	}
	var lists [][]string
	for i, a := range c09Alphabet {
		lists = append(lists, []string{a})
		for j, b := range c09Alphabet {
			if j > i {
				lists = append(lists, []string{a, b}, []string{b, a})
			}
		}
	}
	lists = append(lists, []string{"a@example.org", "a@example.org"})
	var hists [][][]string
	for _, l := range lists {
		hists = append(hists, [][]string{l})
	}
	for _, l1 := range lists {
		for _, l2 := range lists {
			hists = append(hists, [][]string{l1, l2})
		}
	}
	if vx.Thorough() {
		short := lists[:12]
		for _, l1 := range short {
			for _, l2 := range short {
				for _, l3 := range short {
					hists = append(hists, [][]string{l1, l2, l3})
				}
			}
		}
	}
	faults := []string{"", "rcpt:a@example.org", "rcpt:b@xn--e1afmkfd.xn--p1ai", "data4", "data5", "drop-data", "droprcpt:d@example.org", "rcpt421:d@example.org", "mail5:mx.example.org:1", "mail5:mx.example.org:2", "mail4:mx.example.org:2"}
	idx := 0
	for _, h := range hists {
		for _, f := range faults {
			for _, su := range []bool{true, false} {
				for _, mu := range []bool{true, false} {
					idx++
					if !r.Mine(idx) {
						continue
					}
					nulls := []*int{nil}
					if len(h) > 1 && f == "" {
						one := 1
						nulls = append(nulls, &one)
					}
					for _, nf := range nulls {
						c := c09Case{UTF8Server: su, Fault: f, History: h, UTF8Msg: mu, NullFrom: nf}
						fp, detail := c09Run(c)
						r.Eval()
						if f != "" || !su || len(h) > 1 {
							r.Nontrivial(vx.JSON(c))
						}
						if fp != "" {
							r.Violation(fp, detail+"\ncase: "+vx.JSON(c), c)
						} else {
							r.Outcome(c09Outcome)
						}
					}
					c := c09Case{UTF8Server: su, Fault: f, History: h, UTF8Msg: mu}
					if idx%4001 == 0 {
						r.Sample(c)
					}
				}
			}
		}
	}
	r.Bound("histories", len(hists))
}
