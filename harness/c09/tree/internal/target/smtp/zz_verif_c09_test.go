package smtp_downstream

// C09 (target.smtp / target.lmtp) — per-recipient results of the forwarding
// targets against scripted SMTP and LMTP servers on unix sockets.

import (
	"context"
	"encoding/json"
	"errors"
	"fmt"
	"io"
	"os"
	"path/filepath"
	"sort"
	"strings"
	"sync"
	"testing"

	"github.com/emersion/go-message/textproto"
	"github.com/emersion/go-smtp"
	"github.com/foxcpp/maddy/framework/buffer"
	"github.com/foxcpp/maddy/framework/config"
	"github.com/foxcpp/maddy/framework/log"
	"github.com/foxcpp/maddy/framework/module"
	"github.com/foxcpp/maddy/internal/verif/peers"
	"github.com/foxcpp/maddy/internal/verif/vx"
)

type c09dStatus struct {
	mu    sync.Mutex
	calls []string
}

func (s *c09dStatus) SetStatus(r string, err error) {
	s.mu.Lock()
	s.calls = append(s.calls, r)
	s.mu.Unlock()
}

type c09dCase struct {
	LMTP       bool     `json:"lmtp"`
	UTF8Server bool     `json:"server_smtputf8"`
	UTF8Msg    bool     `json:"message_smtputf8"`
	Fault      string   `json:"fault"`
	Rcpts      []string `json:"rcpts"`
	BadBody    bool     `json:"body_open_fails"`
}

type c09dBadBuf struct{}

func (c09dBadBuf) Open() (io.ReadCloser, error) { return nil, errors.New("scripted body open failure") }
func (c09dBadBuf) Len() int                     { return 0 }
func (c09dBadBuf) Remove() error                { return nil }

var c09dPKI = peers.NewPKI()

var c09dOutcome string // observation class of the last run (vacuity guard)

func c09dRun(scratch string, c c09dCase) (string, string) {
	w := peers.NewWorld(c09dPKI)
	sock := filepath.Join(scratch, "peer.sock")
	os.Remove(sock)
	reply := func(stage, arg string) *smtp.SMTPError {
		switch {
		case strings.HasPrefix(c.Fault, "rcpt:") && stage == "rcpt" && strings.EqualFold(arg, c.Fault[5:]):
			return peers.Err(550, [3]int{5, 1, 1}, "no such user")
		case strings.HasPrefix(c.Fault, "status:") && stage == "status" && strings.EqualFold(arg, c.Fault[7:]):
			return peers.Err(452, [3]int{4, 2, 2}, "mailbox full")
		case c.Fault == "data5" && stage == "data":
			return peers.Err(554, [3]int{5, 6, 0}, "content refused")
		}
		return nil
	}
	drop := ""
	if c.Fault == "drop-data" {
		drop = "data"
	}
	stop, err := w.AddUnix(peers.Script{Host: "next.hop.example", LMTP: c.LMTP, SMTPUTF8: c.UTF8Server, Reply: reply, DropAt: drop}, sock)
	if err != nil {
		return "HARNESS:listen", err.Error()
	}
	defer stop()
	name := "target.smtp"
	if c.LMTP {
		name = "target.lmtp"
	}
	m, _ := NewDownstream(name, "verif", nil, []string{"unix://" + sock})
	u := m.(*Downstream)
	if err := u.Init(config.NewMap(map[string]interface{}{}, config.Node{Children: []config.Node{{Name: "hostname", Args: []string{"mx.verif.example"}}, {Name: "starttls", Args: []string{"no"}}}})); err != nil {
		return "HARNESS:init", err.Error()
	}
	u.log = log.Logger{Out: log.NopOutput{}}
	ctx := context.Background()
	d, err := u.Start(ctx, &module.MsgMetadata{ID: "c09d", SMTPOpts: smtp.MailOptions{UTF8: c.UTF8Msg}}, "sender@origin.example")
	if err != nil {
		return "C09:downstream:start-failed", err.Error()
	}
	var accepted []string
	for _, r := range c.Rcpts {
		if err := d.AddRcpt(ctx, r, smtp.RcptOptions{}); err == nil {
			accepted = append(accepted, r)
		}
	}
	c09dOutcome = fmt.Sprintf("offered=%d accepted=%d", len(c.Rcpts), len(accepted))
	if len(accepted) == 0 {
		d.Abort(ctx)
		return "", ""
	}
	pd, ok := d.(module.PartialDelivery)
	if !ok {
		c09dOutcome += " atomic"
		// atomic target: nothing to check about status keys
		hdr := textproto.Header{}
		d.Body(ctx, hdr, buffer.MemoryBuffer{Slice: []byte("hi\r\n")})
		d.Commit(ctx)
		return "", ""
	}
	st := &c09dStatus{}
	hdr := textproto.Header{}
	hdr.Add("Subject", "c09")
	var body buffer.Buffer = buffer.MemoryBuffer{Slice: []byte("hi\r\n")}
	if c.BadBody {
		body = c09dBadBuf{}
	}
	if p := vx.Catch(func() { pd.BodyNonAtomic(ctx, st, hdr, body) }); p != nil {
		d.Abort(ctx)
		return "C09:downstream:panic", fmt.Sprintf("BodyNonAtomic panicked: %v", p)
	}
	d.Commit(ctx)
	c09dOutcome += fmt.Sprintf(" statuses=%d", len(st.calls))
	got := append([]string{}, st.calls...)
	sort.Strings(got)
	want := append([]string{}, accepted...)
	sort.Strings(want)
	if strings.Join(got, "\x00") != strings.Join(want, "\x00") {
		kind := "status-keys-differ"
		if len(got) == len(want) {
			kind = "status-under-converted-address"
		} else if len(got) > len(want) {
			kind = "extra-status"
		} else {
			kind = "accepted-recipient-without-status"
		}
		return "C09:downstream:" + kind, fmt.Sprintf("AddRcpt accepted %q, statuses were set for %q", want, got)
	}
	return "", ""
}

func TestVerifC09Downstream(t *testing.T) {
	r := vx.Start("C09", "downstream")
	defer r.Finish()
	scratch, _ := os.MkdirTemp("", "c09d-")
	defer os.RemoveAll(scratch)
	r.Rule("target.lmtp (per-recipient) and target.smtp against scripted servers on unix sockets: recipient lists of 1-3 from {ASCII, upper-case, IDN U-label, A-label, non-ASCII local part, one mailbox under the U-label and the A-label form of its domain, duplicate}; next hop with / without SMTPUTF8; message with / without SMTPUTF8; faults {none, RCPT refused, per-recipient LMTP failure, DATA refused, connection dropped at DATA, body cannot be opened}; oracle: SetStatus keys = addresses accepted by AddRcpt, exact strings, each once; no panic. Non-trivial: distinct cases with a fault or a conversion")
	if rp := r.Replay(); rp != nil {
		var c c09dCase
		if json.Unmarshal(rp, &c) != nil {
			r.HarnessError("bad replay")
			return
		}
		fp, detail := c09dRun(scratch, c)
		r.Eval()
		if fp != "" {
			r.Violation(fp, detail, c)
		}
		return
	}
	if r.Replaying() {
		return
	}
	alpha := []string{"a@example.org", "A2@EXAMPLE.ORG", "b@пример.рф", "c@xn--e1afmkfd.xn--p1ai", "ü@example.org"}
	var lists [][]string
	for i, a := range alpha {
		lists = append(lists, []string{a})
		for j, b := range alpha {
			if i != j {
				lists = append(lists, []string{a, b})
			}
			if vx.Thorough() {
				for k, c := range alpha {
					if i != j && j != k && i != k {
						lists = append(lists, []string{a, b, c})
					}
				}
			}
		}
	}
	lists = append(lists, []string{"a@example.org", "a@example.org"})
	// one mailbox named twice in one transaction, by the U-label and by the A-label form of
	// its domain (both go on the wire alike when the next hop does not offer SMTPUTF8)
	lists = append(lists, []string{"b@пример.рф", "b@xn--e1afmkfd.xn--p1ai"}, []string{"b@xn--e1afmkfd.xn--p1ai", "b@пример.рф"}, []string{"b@xn--e1afmkfd.xn--p1ai", "a@example.org", "b@пример.рф"})
	faults := []string{"", "rcpt:a@example.org", "status:a@example.org", "status:b@xn--e1afmkfd.xn--p1ai", "status:b@пример.рф", "data5", "drop-data"}
	idx := 0
	for _, lmtp := range []bool{true, false} {
		for _, l := range lists {
			for _, f := range faults {
				for _, su := range []bool{true, false} {
					for _, mu := range []bool{true, false} {
						for _, bad := range []bool{false, true} {
							if bad && f != "" {
								continue
							}
							idx++
							if !r.Mine(idx) {
								continue
							}
							c := c09dCase{LMTP: lmtp, UTF8Server: su, UTF8Msg: mu, Fault: f, Rcpts: l, BadBody: bad}
							fp, detail := c09dRun(scratch, c)
							r.Eval()
							if f != "" || !su || bad {
								r.Nontrivial(vx.JSON(c))
							}
							if strings.HasPrefix(fp, "HARNESS:") {
								r.HarnessError(fp + detail)
								return
							}
							if fp != "" {
								r.Violation(fp, detail+"\ncase: "+vx.JSON(c), c)
							} else {
								r.Outcome(c09dOutcome)
							}
							if idx%977 == 0 {
								r.Sample(c)
							}
						}
					}
				}
			}
		}
	}
}
