package msgpipeline

// C09 (pipeline) — results of rewritten recipients are reported under the
// addresses the client supplied: real pipelines with 1->1, 1->N and nested
// rewriting over per-recipient and atomic monitored targets with injected
// per-recipient and body failures.

import (
	"context"
	"encoding/json"
	"errors"
	"fmt"
	"sort"
	"strings"
	"sync"
	"testing"

	"github.com/emersion/go-message/textproto"
	"github.com/emersion/go-smtp"
	"github.com/foxcpp/maddy/framework/buffer"
	"github.com/foxcpp/maddy/framework/config"
	"github.com/foxcpp/maddy/framework/module"
	_ "github.com/foxcpp/maddy/internal/modify"
	"github.com/foxcpp/maddy/internal/verif/mon"
	"github.com/foxcpp/maddy/internal/verif/vx"
)

type c09pTable struct {
	name string
	m    map[string][]string
}

func (t *c09pTable) Name() string           { return "verif_table" }
func (t *c09pTable) InstanceName() string   { return t.name }
func (t *c09pTable) Init(*config.Map) error { return nil }
func (t *c09pTable) Lookup(ctx context.Context, k string) (string, bool, error) {
	if v := t.m[k]; len(v) > 0 {
		return v[0], true, nil
	}
	return "", false, nil
}
func (t *c09pTable) LookupMulti(ctx context.Context, k string) ([]string, error) { return t.m[k], nil }

var (
	c09pOuter = &c09pTable{name: "c09outer"}
	c09pInner = &c09pTable{name: "c09inner"}
	c09pPart  = &mon.Target{N: "c09part", Partial: true}
	c09pAtom  = &mon.Target{N: "c09atom"}
	c09pOnce  sync.Once
)

type c09pCase struct {
	Shape  string   `json:"shape"`
	Rcpts  []string `json:"client_rcpts"`
	FailOn string   `json:"fail_on"` // final address whose per-recipient status fails; "body" = atomic body failure; "" none
	// Earlier: the message comes from a queue fed by another pipeline that had rewritten every
	// recipient already (MsgMetadata.OriginalRcpts arrives filled: client address -> address
	// the original sender used)
	Earlier bool `json:"rewritten_before_this_pipeline,omitempty"`
}

type c09pStatus struct {
	mu    sync.Mutex
	calls []string
	errs  []error
}

func (s *c09pStatus) SetStatus(r string, err error) {
	s.mu.Lock()
	s.calls = append(s.calls, r)
	s.errs = append(s.errs, err)
	s.mu.Unlock()
}

func c09pNodes(shape string) []config.Node {
	mod := func(tbl string) config.Node {
		return config.Node{Name: "modify", Children: []config.Node{{Name: "replace_rcpt", Args: []string{"&" + tbl}}}}
	}
	switch shape {
	case "global-1to1-partial":
		return []config.Node{mod("c09outer"), {Name: "deliver_to", Args: []string{"&c09part"}}}
	case "dest-1toN-partial":
		return []config.Node{
			{Name: "destination", Args: []string{"list.example"}, Children: []config.Node{mod("c09outer"), {Name: "deliver_to", Args: []string{"&c09part"}}}},
			{Name: "default_destination", Children: []config.Node{{Name: "deliver_to", Args: []string{"&c09part"}}}},
		}
	case "global-1to1-atomic":
		return []config.Node{mod("c09outer"), {Name: "deliver_to", Args: []string{"&c09atom"}}}
	case "both-targets":
		return []config.Node{mod("c09outer"), {Name: "deliver_to", Args: []string{"&c09atom"}}, {Name: "deliver_to", Args: []string{"&c09part"}}}
	case "nested-reroute":
		return []config.Node{mod("c09outer"), {Name: "reroute", Children: []config.Node{mod("c09inner"), {Name: "deliver_to", Args: []string{"&c09part"}}}}}
	}
	return nil
}

var c09pOutcome string // observation class of the last run (vacuity guard)

func c09pRun(c c09pCase) (string, string) {
	c09pOnce.Do(func() {
		module.RegisterInstance(c09pOuter, nil)
		module.RegisterInstance(c09pInner, nil)
		module.RegisterInstance(c09pPart, nil)
		module.RegisterInstance(c09pAtom, nil)
	})
	c09pOuter.m = map[string][]string{
		"alias@example.org": {"final@example.org"},
		"team@list.example": {"m1@example.org", "m2@example.org"},
		"other@example.org": {"final@example.org"},
		"step1@example.org": {"step2@example.org"},
		// the result of one rewrite is itself an address with an entry (modifiers rewrite once)
		"final@example.org": {"deep2@example.org"},
	}
	c09pInner.m = map[string][]string{"step2@example.org": {"step3@example.org"}, "final@example.org": {"deep@example.org"}}
	c09pPart.Reset()
	c09pAtom.Reset()
	c09pPart.Fault = func(d *mon.Deliv, stage, rcpt string) error {
		if stage == "status" && rcpt == c.FailOn {
			return errors.New("scripted per-recipient failure for " + rcpt)
		}
		return nil
	}
	c09pAtom.Fault = func(d *mon.Deliv, stage, rcpt string) error {
		if stage == "body" && c.FailOn == "body" {
			return errors.New("scripted body failure")
		}
		return nil
	}
	p, err := New(map[string]interface{}{}, c09pNodes(c.Shape))
	if err != nil {
		return "HARNESS:load", err.Error()
	}
	ctx := context.Background()
	meta := &module.MsgMetadata{ID: "c09p"}
	if c.Earlier {
		meta.OriginalRcpts = map[string]string{}
		for _, r := range c.Rcpts {
			meta.OriginalRcpts[r] = "first-" + r
		}
	}
	d, err := p.Start(ctx, meta, "sender@origin.example")
	if err != nil {
		return "HARNESS:start", err.Error()
	}
	supplied := map[string]bool{}
	for _, r := range c.Rcpts {
		if err := d.AddRcpt(ctx, r, smtp.RcptOptions{}); err == nil {
			supplied[r] = true
		}
	}
	st := &c09pStatus{}
	hdr := textproto.Header{}
	hdr.Add("Subject", "x")
	d.(module.PartialDelivery).BodyNonAtomic(ctx, st, hdr, buffer.MemoryBuffer{Slice: []byte("hi\r\n")})
	d.Commit(ctx)
	// which client addresses lead to the failing final address
	route := func(a string) []string {
		cur := []string{a}
		apply := func(m map[string][]string, in []string) []string {
			var out []string
			for _, x := range in {
				if v, ok := m[x]; ok {
					out = append(out, v...)
				} else {
					out = append(out, x)
				}
			}
			return out
		}
		if c.Shape != "dest-1toN-partial" || strings.HasSuffix(a, "@list.example") {
			cur = apply(c09pOuter.m, cur)
		}
		if c.Shape == "nested-reroute" {
			cur = apply(c09pInner.m, cur)
		}
		return cur
	}
	mustFail := map[string]bool{}
	for a := range supplied {
		for _, f := range route(a) {
			if f == c.FailOn && c.Shape != "global-1to1-atomic" {
				mustFail[a] = true
			}
		}
		if c.FailOn == "body" && (c.Shape == "global-1to1-atomic" || c.Shape == "both-targets") {
			mustFail[a] = true
		}
	}
	seenErr := map[string]bool{}
	for i, k := range st.calls {
		if !supplied[k] {
			return "C09:pipeline:status-under-rewritten-address", fmt.Sprintf("status set for %q; the client supplied %v", k, keys(supplied))
		}
		if st.errs[i] != nil {
			seenErr[k] = true
		}
	}
	for a := range mustFail {
		if !seenErr[a] {
			// does another supplied address lead to the same final address?
			shared := ""
			for b := range supplied {
				if b == a {
					continue
				}
				for _, fa := range route(a) {
					for _, fb := range route(b) {
						if fa == fb && fa == c.FailOn {
							shared = ":two-client-addresses-one-final-address"
						}
					}
				}
			}
			return "C09:pipeline:failure-not-reported" + shared, fmt.Sprintf("recipient %q (delivered as %v) failed but no failure status was reported under that address; statuses: %q", a, route(a), st.calls)
		}
	}
	c09pOutcome = fmt.Sprintf("supplied=%d must-fail=%d failures-reported=%d", len(supplied), len(mustFail), len(seenErr))
	for a := range seenErr {
		if !mustFail[a] {
			return "C09:pipeline:failure-for-wrong-recipient", fmt.Sprintf("failure reported for %q which did not fail; statuses %q", a, st.calls)
		}
	}
	return "", ""
}

func keys(m map[string]bool) []string {
	var ks []string
	for k := range m {
		ks = append(ks, k)
	}
	sort.Strings(ks)
	return ks
}

func TestVerifC09Pipeline(t *testing.T) {
	r := vx.Start("C09", "pipeline")
	defer r.Finish()
	r.Rule("5 pipeline shapes (global 1->1 rewrite + per-recipient target, destination 1->2 rewrite, atomic target, atomic + per-recipient targets, nested reroute with rewriting at both levels) x client recipient lists of 1-3 over {plain, alias, second alias of the same mailbox, list address, two-step alias, an address that is both the result of one alias and itself an alias} x failure on each final address / atomic body failure / none x message fresh or already rewritten by a pipeline in front of a queue (OriginalRcpts arrives filled), through the real msgpipeline BodyNonAtomic; oracle: every status key is an address the client supplied, a failing final address is reported under the client's address, nothing else fails. Non-trivial: distinct cases with a failure")
	if rp := r.Replay(); rp != nil {
		var c c09pCase
		if json.Unmarshal(rp, &c) != nil {
			r.HarnessError("bad replay")
			return
		}
		fp, detail := c09pRun(c)
		r.Eval()
		if fp != "" {
			r.Violation(fp, detail, c)
		}
		return
	}
	if r.Replaying() {
		return
	}
	alpha := []string{"plain@example.org", "alias@example.org", "other@example.org", "team@list.example", "step1@example.org", "final@example.org"}
	var lists [][]string
	for i, a := range alpha {
		lists = append(lists, []string{a})
		for j, b := range alpha {
			if i != j {
				lists = append(lists, []string{a, b})
				for k, c := range alpha {
					if k != i && k != j && vx.Thorough() {
						lists = append(lists, []string{a, b, c})
					}
				}
			}
		}
	}
	fails := []string{"", "final@example.org", "m2@example.org", "plain@example.org", "step2@example.org", "step3@example.org", "deep@example.org", "deep2@example.org", "body"}
	idx := 0
	for _, sh := range []string{"global-1to1-partial", "dest-1toN-partial", "global-1to1-atomic", "both-targets", "nested-reroute"} {
		for _, l := range lists {
			for _, f := range fails {
				idx++
				if !r.Mine(idx) {
					continue
				}
				for _, earlier := range []bool{false, true} {
					c := c09pCase{Shape: sh, Rcpts: l, FailOn: f, Earlier: earlier}
					fp, detail := c09pRun(c)
					r.Eval()
					if f != "" {
						r.Nontrivial(vx.JSON(c))
					}
					if strings.HasPrefix(fp, "HARNESS:") {
						r.HarnessError(fp + " " + detail)
						return
					}
					if fp != "" {
						r.Violation(fp, detail+"\ncase: "+vx.JSON(c), c)
					} else {
						r.Outcome(c.Shape + ": " + c09pOutcome)
					}
					if idx%97 == 0 {
						r.Sample(c)
					}
				}
			}
		}
	}
}
