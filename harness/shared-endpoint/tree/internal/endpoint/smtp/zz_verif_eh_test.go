package smtp

// Shared endpoint harness (C03, C14, C15, C11): a real Endpoint (real go-smtp
// server) served over in-memory pipes, a raw protocol client, monitored
// targets and a scripted check registered as module instances.

import (
	"bufio"
	"context"
	"errors"
	"fmt"
	"net"
	"strings"
	"sync"
	"time"

	"github.com/emersion/go-message/textproto"
	"github.com/foxcpp/maddy/framework/buffer"
	"github.com/foxcpp/maddy/framework/config"
	"github.com/foxcpp/maddy/framework/exterrors"
	"github.com/foxcpp/maddy/framework/log"
	"github.com/foxcpp/maddy/framework/module"
	"github.com/foxcpp/maddy/internal/verif/mon"
)

// ---- in-memory listener ---------------------------------------------------------------------

type ehListener struct {
	conns  chan net.Conn
	closed chan struct{}
	once   sync.Once
}

func newEHListener() *ehListener {
	return &ehListener{conns: make(chan net.Conn, 4), closed: make(chan struct{})}
}

func (l *ehListener) Accept() (net.Conn, error) {
	select {
	case c := <-l.conns:
		return c, nil
	case <-l.closed:
		return nil, errors.New("listener closed")
	}
}
func (l *ehListener) Close() error   { l.once.Do(func() { close(l.closed) }); return nil }
func (l *ehListener) Addr() net.Addr { return ehAddr{} }

type ehAddr struct{}

func (ehAddr) Network() string { return "pipe" }
func (ehAddr) String() string  { return "pipe" }

// ehServerConn notifies when the server side closed the connection.
type ehServerConn struct {
	net.Conn
	done chan struct{}
	once sync.Once
}

func (c *ehServerConn) Close() error {
	err := c.Conn.Close()
	c.once.Do(func() { close(c.done) })
	return err
}

// ---- raw client ----------------------------------------------------------------------------------

type ehClient struct {
	c    net.Conn
	r    *bufio.Reader
	done chan struct{} // closed when the server side closed the connection
}

var errEHDeadline = errors.New("harness deadline")

const ehDeadline = 20 * time.Second

func (l *ehListener) dial() *ehClient {
	cl, sv := net.Pipe()
	sc := &ehServerConn{Conn: sv, done: make(chan struct{})}
	l.conns <- sc
	return &ehClient{c: cl, r: bufio.NewReader(cl), done: sc.done}
}

type ehReply struct {
	Code  int
	Lines []string
}

func (r ehReply) Class() int { return r.Code / 100 }
func (r ehReply) String() string {
	if len(r.Lines) == 0 {
		return fmt.Sprint(r.Code)
	}
	return fmt.Sprintf("%d %s", r.Code, r.Lines[len(r.Lines)-1])
}

// read one (possibly multi-line) reply; Code 0 = connection closed.
func (c *ehClient) read() (ehReply, error) {
	var rep ehReply
	for {
		c.c.SetReadDeadline(time.Now().Add(ehDeadline))
		line, err := c.r.ReadString('\n')
		if err != nil {
			if ne, ok := err.(net.Error); ok && ne.Timeout() {
				return rep, errEHDeadline
			}
			return ehReply{}, nil // closed
		}
		line = strings.TrimRight(line, "\r\n")
		if len(line) < 4 {
			return rep, fmt.Errorf("short reply line %q", line)
		}
		fmt.Sscanf(line[:3], "%d", &rep.Code)
		rep.Lines = append(rep.Lines, line[4:])
		if line[3] == ' ' {
			return rep, nil
		}
	}
}

func (c *ehClient) write(s string) error {
	c.c.SetWriteDeadline(time.Now().Add(ehDeadline))
	_, err := c.c.Write([]byte(s))
	return err
}

func (c *ehClient) cmd(line string) (ehReply, error) {
	if err := c.write(line + "\r\n"); err != nil {
		return ehReply{}, nil
	}
	return c.read()
}

// waitClosed waits until the server finished handling the connection.
func (c *ehClient) waitClosed() error {
	select {
	case <-c.done:
		return nil
	case <-time.After(ehDeadline):
		return errEHDeadline
	}
}

// ---- scripted check -----------------------------------------------------------------------------------

type ehCheck struct {
	name string
	mu   sync.Mutex
	// Verdict returns the result for a stage ("conn","sender","rcpt","body").
	Verdict func(stage, item string) module.CheckResult
}

func (c *ehCheck) Name() string           { return "verif_check" }
func (c *ehCheck) InstanceName() string   { return c.name }
func (c *ehCheck) Init(*config.Map) error { return nil }
func (c *ehCheck) CheckStateForMsg(ctx context.Context, m *module.MsgMetadata) (module.CheckState, error) {
	return &ehCheckState{c}, nil
}

type ehCheckState struct{ c *ehCheck }

func (s *ehCheckState) v(stage, item string) module.CheckResult {
	s.c.mu.Lock()
	f := s.c.Verdict
	s.c.mu.Unlock()
	if f == nil {
		return module.CheckResult{}
	}
	return f(stage, item)
}
func (s *ehCheckState) CheckConnection(ctx context.Context) module.CheckResult { return s.v("conn", "") }
func (s *ehCheckState) CheckSender(ctx context.Context, f string) module.CheckResult {
	return s.v("sender", f)
}
func (s *ehCheckState) CheckRcpt(ctx context.Context, r string) module.CheckResult {
	return s.v("rcpt", r)
}
func (s *ehCheckState) CheckBody(ctx context.Context, h textproto.Header, b buffer.Buffer) module.CheckResult {
	return s.v("body", "")
}
func (s *ehCheckState) Close() error { return nil }

func ehReject(what string) module.CheckResult {
	return module.CheckResult{Reject: true, Reason: &exterrors.SMTPError{Code: 550, EnhancedCode: exterrors.EnhancedCode{5, 7, 1}, Message: "scripted reject at " + what + " (refus\u00e9)", CheckName: "verif"}}
}

// ---- scripted modifier --------------------------------------------------------------------------------

type ehModifier struct {
	name string
	mu   sync.Mutex
	// Fail returns the error for a stage ("init","sender","rcpt","body"); nil = pass the value through.
	Fail func(stage string) error
	// closes of states opened (typestate of the modifier state)
	Opened, Closed int
}

func (m *ehModifier) Name() string           { return "verif_modifier" }
func (m *ehModifier) InstanceName() string   { return m.name }
func (m *ehModifier) Init(*config.Map) error { return nil }
func (m *ehModifier) f(stage string) error {
	m.mu.Lock()
	f := m.Fail
	m.mu.Unlock()
	if f == nil {
		return nil
	}
	return f(stage)
}
func (m *ehModifier) ModStateForMsg(ctx context.Context, meta *module.MsgMetadata) (module.ModifierState, error) {
	if err := m.f("init"); err != nil {
		return nil, err
	}
	m.mu.Lock()
	m.Opened++
	m.mu.Unlock()
	return &ehModState{m}, nil
}

type ehModState struct{ m *ehModifier }

func (s *ehModState) RewriteSender(ctx context.Context, from string) (string, error) {
	return from, s.m.f("sender")
}
func (s *ehModState) RewriteRcpt(ctx context.Context, to string) ([]string, error) {
	if err := s.m.f("rcpt"); err != nil {
		return nil, err
	}
	return []string{to}, nil
}
func (s *ehModState) RewriteBody(ctx context.Context, h *textproto.Header, b buffer.Buffer) error {
	return s.m.f("body")
}
func (s *ehModState) Close() error {
	s.m.mu.Lock()
	s.m.Closed++
	s.m.mu.Unlock()
	return nil
}

// ---- instances ---------------------------------------------------------------------------------------------

var (
	ehT1    = &mon.Target{N: "vt1"}
	ehT2    = &mon.Target{N: "vt2", Partial: true}
	ehT3    = &mon.Target{N: "vt3"}
	ehCheck1 = &ehCheck{name: "vchk"}
	ehMod1   = &ehModifier{name: "vmod"}
	ehOnce  sync.Once
)

func ehRegister() {
	ehOnce.Do(func() {
		module.RegisterInstance(ehT1, nil)
		module.RegisterInstance(ehT2, nil)
		module.RegisterInstance(ehT3, nil)
		module.RegisterInstance(ehCheck1, nil)
		module.RegisterInstance(ehMod1, nil)
	})
}

// ehEndpoint builds and serves a real endpoint over an in-memory listener.
func ehEndpoint(modName string, extra []config.Node) (*Endpoint, *ehListener, error) {
	ehRegister()
	mod, err := New(modName, nil)
	if err != nil {
		return nil, nil, err
	}
	endp := mod.(*Endpoint)
	endp.Log = log.Logger{Out: log.NopOutput{}}
	endp.resolver = nil
	nodes := []config.Node{
		{Name: "hostname", Args: []string{"mx.verif.example"}},
		{Name: "tls", Args: []string{"off"}},
	}
	hasBuffer := false
	for _, n := range extra {
		if n.Name == "buffer" {
			hasBuffer = true
		}
	}
	if !hasBuffer {
		nodes = append(nodes, config.Node{Name: "buffer", Args: []string{"ram"}})
	}
	nodes = append(nodes, extra...)
	if err := endp.Init(config.NewMap(map[string]interface{}{}, config.Node{Children: nodes})); err != nil {
		return nil, nil, err
	}
	endp.resolver = nil
	endp.Log = log.Logger{Out: log.NopOutput{}}
	endp.pipeline.Log = log.Logger{Out: log.NopOutput{}}
	l := newEHListener()
	go endp.serv.Serve(l)
	return endp, l, nil
}

func ehStop(endp *Endpoint, l *ehListener) {
	l.Close()
	endp.serv.Close()
}
