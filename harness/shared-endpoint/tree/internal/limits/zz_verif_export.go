package limits

import "github.com/foxcpp/maddy/internal/limits/limiters"

// Verification-only accessor (injected by overlay, never part of the tree).

func verifCount(l limiters.L) int {
	n := 0
	switch x := l.(type) {
	case limiters.Semaphore:
		n += x.VerifInUse()
	case *limiters.MultiLimit:
		for _, w := range x.Wrapped {
			n += verifCount(w)
		}
	}
	return n
}

// VerifInUse reports the concurrency permits held in the global scope and for
// the given per-IP / per-source keys.
func (g *Group) VerifInUse(ip, source string) (all, perIP, perSource int) {
	all = verifCount(&g.global)
	if g.ip != nil {
		if b := g.ip.VerifBucket(ip); b != nil {
			perIP = verifCount(b)
		}
	}
	if g.source != nil {
		if b := g.source.VerifBucket(source); b != nil {
			perSource = verifCount(b)
		}
	}
	return
}
