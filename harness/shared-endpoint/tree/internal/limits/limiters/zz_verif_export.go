package limiters

// Verification-only accessors (injected by overlay, never part of the tree).

// VerifInUse returns the number of permits currently held.
func (s Semaphore) VerifInUse() int { return len(s.c) }

// VerifBucket returns the limiter of a key without creating it.
func (r *BucketSet) VerifBucket(key string) L {
	r.mLck.Lock()
	defer r.mLck.Unlock()
	if b, ok := r.m[key]; ok {
		return b.r
	}
	return nil
}
