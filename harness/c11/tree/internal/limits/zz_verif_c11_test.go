package limits

// C11 — limits are enforced, every permit is returned, limit operations never
// crash. Part "sched": limiters/*.go and limits.go compiled from scheduler-
// rewritten copies, all interleavings up to a pre-emption bound. Part "keys":
// key populations up to and beyond the bucket-table capacity (sequential).

import (
	"context"
	"encoding/json"
	"fmt"
	"net"
	"sort"
	"strings"
	"testing"
	"time"

	"github.com/foxcpp/maddy/framework/config"
	"github.com/foxcpp/maddy/internal/verif/vsched"
	"github.com/foxcpp/maddy/internal/verif/vx"
)

func c11Group(scopes []string, n int, kind string) (*Group, error) {
	var ch []config.Node
	for _, s := range scopes {
		if kind == "concurrency+rate" {
			// two limiters in one scope: a concurrency limit followed by a slow rate limit
			ch = append(ch, config.Node{Name: s, Args: []string{"concurrency", fmt.Sprint(n)}})
			ch = append(ch, config.Node{Name: s, Args: []string{"rate", "1", "10s"}})
			continue
		}
		if kind == "concurrency+rate0" {
			// a concurrency limit next to a rate limit that is switched off (burst 0)
			ch = append(ch, config.Node{Name: s, Args: []string{"rate", "0"}})
			ch = append(ch, config.Node{Name: s, Args: []string{"concurrency", fmt.Sprint(n)}})
			continue
		}
		if kind == "rate" {
			ch = append(ch, config.Node{Name: s, Args: []string{"rate", fmt.Sprint(n), "1s"}})
		} else {
			ch = append(ch, config.Node{Name: s, Args: []string{"concurrency", fmt.Sprint(n)}})
		}
	}
	m, err := New("limits", "verif", nil, nil)
	if err != nil {
		return nil, err
	}
	g := m.(*Group)
	if err := g.Init(config.NewMap(nil, config.Node{Children: ch})); err != nil {
		return nil, err
	}
	return g, nil
}

type c11Worker struct {
	ip, src, dst string
}

type c11Params struct {
	name    string
	scopes  []string
	n       int
	workers []c11Worker
	bound   int
	kind    string
}

func has(ss []string, s string) bool {
	for _, x := range ss {
		if x == s {
			return true
		}
	}
	return false
}

func c11Scenario(p c11Params) vx.ScheduleScenario {
	return vx.ScheduleScenario{Name: p.name, Bound: p.bound, Opt: vsched.Options{MaxSteps: 3000}, Make: func() vsched.Scenario {
		inside := map[string]int{}
		var viol []string
		timeouts, entered := 0, 0
		return vsched.Scenario{
			Root: func() {
				kind := p.kind
				if kind == "" {
					kind = "concurrency"
				}
				g, err := c11Group(p.scopes, p.n, kind)
				if err != nil {
					viol = append(viol, "init|"+err.Error())
					return
				}
				keysOf := func(w c11Worker) []string {
					var ks []string
					if has(p.scopes, "all") {
						ks = append(ks, "all")
					}
					if has(p.scopes, "ip") {
						ks = append(ks, "ip:"+w.ip)
					}
					if has(p.scopes, "source") {
						ks = append(ks, "source:"+w.src)
					}
					if has(p.scopes, "destination") {
						ks = append(ks, "destination:"+w.dst)
					}
					return ks
				}
				run := func(w c11Worker, mustSucceed bool) {
					ctx := context.Background()
					if err := g.TakeMsg(ctx, net.ParseIP(w.ip), w.src); err != nil {
						timeouts++
						if mustSucceed {
							viol = append(viol, "permit-not-returned|TakeMsg after quiescence: "+err.Error())
						}
						return
					}
					if err := g.TakeDest(ctx, w.dst); err != nil {
						timeouts++
						g.ReleaseMsg(net.ParseIP(w.ip), w.src)
						if mustSucceed {
							viol = append(viol, "permit-not-returned|TakeDest after quiescence: "+err.Error())
						}
						return
					}
					entered++
					for _, k := range keysOf(w) {
						inside[k]++
						if inside[k] > p.n {
							viol = append(viol, fmt.Sprintf("limit-exceeded:%s|%d deliveries hold a permit of scope key %s, limit %d", strings.SplitN(k, ":", 2)[0], inside[k], k, p.n))
						}
					}
					if !mustSucceed {
						vsched.Yield()
					}
					for _, k := range keysOf(w) {
						inside[k]--
					}
					g.ReleaseDest(w.dst)
					g.ReleaseMsg(net.ParseIP(w.ip), w.src)
				}
				var wg vsched.WaitGroup
				for i, w := range p.workers {
					w := w
					wg.Add(1)
					vsched.GoNamed(fmt.Sprintf("delivery%d", i), func() { run(w, false); wg.Done() })
				}
				wg.Wait()
				// after quiescence the full N can be acquired again in every scope
				type held struct{ w c11Worker }
				var hs []c11Worker
				for i := 0; i < p.n; i++ {
					w := p.workers[0]
					// A limit time-out may be fired spuriously by the environment (a
					// pre-emption); with at most `bound` pre-emptions per execution a
					// genuinely missing permit is the only way to fail bound+1 times.
					var err error
					for attempt := 0; attempt <= p.bound; attempt++ {
						err = g.TakeMsg(context.Background(), net.ParseIP(w.ip), w.src)
						if err == nil {
							err = g.TakeDest(context.Background(), w.dst)
							if err != nil {
								g.ReleaseMsg(net.ParseIP(w.ip), w.src)
							}
						}
						if err == nil {
							break
						}
					}
					if err != nil {
						viol = append(viol, fmt.Sprintf("permit-not-returned|after quiescence only %d of %d permits can be taken: %v", i, p.n, err))
						break
					}
					hs = append(hs, w)
				}
				for _, w := range hs {
					g.ReleaseDest(w.dst)
					g.ReleaseMsg(net.ParseIP(w.ip), w.src)
				}
			},
			Check: func(o *vsched.Outcome) (string, string) {
				cls := "C11:sched"
				if len(o.Panics) > 0 {
					return cls + ":panic:" + vx.PanicSite(o.Panics[0]), o.Panics[0]
				}
				if o.Deadlock {
					sort.Strings(o.Blocked)
					return cls + ":deadlock", strings.Join(o.Blocked, "; ")
				}
				if o.StepCap {
					return cls + ":livelock", "step cap"
				}
				if len(viol) > 0 {
					kv := strings.SplitN(viol[0], "|", 2)
					return cls + ":" + kv[0], strings.Join(viol, "; ")
				}
				return "", ""
			},
		}
	}}
}

func TestVerifC11Sched(t *testing.T) {
	r := vx.Start("C11", "sched")
	defer r.Finish()
	r.Rule("every interleaving of N+1 / N+2 deliveries doing TakeMsg, TakeDest, critical section, ReleaseDest, ReleaseMsg on colliding and distinct keys through the real limits.Group built from configuration, for every non-empty subset of the scopes {all, ip, source, destination} with concurrency N in {1,2}; 5 s limit time-outs fire on the virtual clock; oracle: ledger of deliveries inside per scope key <= N, no panic, no deadlock, and after quiescence N fresh acquisitions succeed. Non-trivial: distinct schedules with a pre-emption or >1 context switch")
	b := 2
	if vx.Thorough() {
		b = 3
	}
	all := []string{"all", "ip", "source", "destination"}
	var scs []vx.ScheduleScenario
	for mask := 1; mask < 16; mask++ {
		var scopes []string
		for i, s := range all {
			if mask&(1<<i) != 0 {
				scopes = append(scopes, s)
			}
		}
		for _, n := range []int{1, 2} {
			if n == 2 && len(scopes) > 2 && !vx.Thorough() {
				continue
			}
			ws := []c11Worker{{"1.1.1.1", "a.org", "x.org"}, {"1.1.1.1", "a.org", "x.org"}}
			if n == 2 {
				ws = append(ws, c11Worker{"1.1.1.1", "a.org", "x.org"})
			}
			bb := b
			if len(scopes) >= 3 && bb > 2 {
				bb = 2
			}
			scs = append(scs, c11Scenario(c11Params{name: fmt.Sprintf("collide-%s-N%d", strings.Join(scopes, "+"), n), scopes: scopes, n: n, workers: ws, bound: bb}))
		}
		if len(scopes) <= 2 {
			// distinct keys plus one collision
			ws := []c11Worker{{"1.1.1.1", "a.org", "x.org"}, {"2.2.2.2", "b.org", "y.org"}, {"1.1.1.1", "a.org", "x.org"}}
			scs = append(scs, c11Scenario(c11Params{name: fmt.Sprintf("mixed-%s-N1", strings.Join(scopes, "+")), scopes: scopes, n: 1, workers: ws, bound: b}))
		}
	}
	// a concurrency limit and a (slow) rate limit in the same scope: the second
	// delivery obtains the concurrency permit and then times out on the rate
	// limiter; the roll-back must return the concurrency permit
	for _, sc := range all {
		ws := []c11Worker{{"1.1.1.1", "a.org", "x.org"}, {"1.1.1.1", "a.org", "x.org"}}
		scs = append(scs, c11Scenario(c11Params{name: "twolimiters-" + sc + "-N1", scopes: []string{sc}, n: 1, workers: ws, bound: 1, kind: "concurrency+rate"}))
	}
	r.ExploreSchedules(scs)
}

// ---- key populations ---------------------------------------------------------------

func TestVerifC11Keys(t *testing.T) {
	r := vx.Start("C11", "keys")
	defer r.Finish()
	r.Rule("for each scope in {ip, source, destination} x release discipline {release every permit, hold one permit per key}: 1, 2, cap-1, cap, cap+1, cap+2, cap+50 distinct keys (cap = bucket-table capacity) are pushed through TakeMsg/TakeDest of a real limits.Group (concurrency 1); oracle: no panic, and for every admitted key the limit is still enforced (a second take of a held key times out, a released key can be taken again). Non-trivial: distinct (scope, discipline, population) cases that crossed the capacity")
	if r.Replaying() && r.Replay() == nil {
		return
	}
	type kc struct {
		Scope string `json:"scope"`
		Hold  bool   `json:"hold"`
		Pop   int    `json:"pop"`
	}
	const capacity = 20010
	pops := []int{1, 2, capacity - 1, capacity, capacity + 1, capacity + 2, capacity + 50}
	i := 0
	for _, scope := range []string{"ip", "source", "destination"} {
		for _, hold := range []bool{false, true} {
			for _, pop := range pops {
				i++
				if !r.Mine(i) {
					continue
				}
				c := kc{scope, hold, pop}
				r.Eval()
				if pop > capacity {
					r.Nontrivial(vx.JSON(c))
				} else {
					r.Nontrivial("below:" + vx.JSON(c))
				}
				r.Sample(c)
				var detail string
				var p any
				body := func() {
					g, err := c11Group([]string{scope}, 1, "concurrency")
					if err != nil {
						detail = "init: " + err.Error()
						return
					}
					take := func(k int, d time.Duration) error {
						ctx, cancel := vsched.WithTimeout(context.Background(), d)
						defer cancel()
						ip := net.IPv4(10, byte(k>>16), byte(k>>8), byte(k))
						switch scope {
						case "ip":
							return g.TakeMsg(ctx, ip, "a.org")
						case "source":
							return g.TakeMsg(ctx, net.IPv4(1, 1, 1, 1), fmt.Sprintf("d%d.org", k))
						default:
							return g.TakeDest(ctx, fmt.Sprintf("d%d.org", k))
						}
					}
					release := func(k int) {
						ip := net.IPv4(10, byte(k>>16), byte(k>>8), byte(k))
						switch scope {
						case "ip":
							g.ReleaseMsg(ip, "a.org")
						case "source":
							g.ReleaseMsg(net.IPv4(1, 1, 1, 1), fmt.Sprintf("d%d.org", k))
						default:
							g.ReleaseDest(fmt.Sprintf("d%d.org", k))
						}
					}
					admitted := []int{}
					for k := 0; k < pop; k++ {
						if err := take(k, 50*time.Millisecond); err != nil {
							continue // refusing under pressure is allowed
						}
						admitted = append(admitted, k)
						if !hold {
							release(k)
						}
					}
					// limit still enforced for admitted keys (probe a few: first, middle, last)
					probe := map[int]bool{}
					if len(admitted) > 0 {
						probe[admitted[0]] = true
						probe[admitted[len(admitted)/2]] = true
						probe[admitted[len(admitted)-1]] = true
					}
					for k := range probe {
						if hold {
							if err := take(k, 20*time.Millisecond); err == nil {
								detail = fmt.Sprintf("key %d: second permit granted while the first is held (limit 1 not enforced)", k)
								return
							}
						} else {
							err := take(k, 2*time.Second)
							if err != nil && len(admitted) >= capacity {
								// a full table may refuse (documented); once the reap
								// interval has passed the permit must be available again
								vsched.Advance(3 * time.Minute)
								err = take(k, 2*time.Second)
							}
							if err != nil {
								detail = fmt.Sprintf("key %d: released permit cannot be taken again: %v", k, err)
								return
							}
							release(k)
						}
					}
				}
				out := vsched.Run(nil, vsched.Options{MaxSteps: 50000000}, body)
				if len(out.Panics) > 0 {
					p = out.Panics[0]
					c11LastSite = vx.PanicSite(out.Panics[0])
				} else if out.Deadlock || out.StepCap {
					detail = "deadlock or step cap: " + strings.Join(out.Blocked, "; ")
				}
				if p != nil {
					r.Violation("C11:keys:panic:"+c11Site(), fmt.Sprintf("%s, hold=%v, %d distinct keys: panic %v", scope, hold, pop, p), c)
				} else if detail != "" {
					kind := "limit-not-enforced"
					if strings.Contains(detail, "cannot be taken again") {
						kind = "permit-lost"
					}
					r.Violation("C11:keys:"+kind+":"+scope, fmt.Sprintf("%s, hold=%v, %d distinct keys: %s", scope, hold, pop, detail), c)
				}
			}
		}
	}
}

// TestVerifC11Reap: permits held while the bucket table sweeps stale buckets.
func TestVerifC11Reap(t *testing.T) {
	r := vx.Start("C11", "reap")
	defer r.Finish()
	r.Rule("for each scope in {ip, source, destination} x N in {1,2} x population {cap-1, cap, cap+50 further distinct keys, each released at once} x trigger {the busy key itself, another new key} x limiters {concurrency; concurrency next to a switched-off rate limit (rate 0)}: N permits of one key are held, the population fills the bucket table, the virtual clock passes the reap interval, the trigger take makes the table sweep its stale buckets; then a further take of the busy key must still be refused, its N releases must not panic and afterwards exactly N permits can be taken again; plus, per scope, cap+1 keys that each saw one timed-out take: after release and the reap interval new keys must be admitted. Non-trivial: cases whose population reaches the table capacity (a sweep happens)")
	if r.Replaying() && r.Replay() == nil {
		return
	}
	type rc struct {
		Scope   string `json:"scope"`
		N       int    `json:"n"`
		Trigger string `json:"sweep_triggered_by"`
		Fill    int    `json:"population"`
		Kind    string `json:"limiters,omitempty"` // "" = concurrency; "concurrency+rate0" = plus a switched-off rate limit
	}
	const capacity = 20010
	i := 0
	for _, scope := range []string{"ip", "source", "destination"} {
		for _, n := range []int{1, 2} {
			for _, trigger := range []string{"busy-key", "other-key"} {
				for _, fill := range []int{capacity - 1, capacity, capacity + 50} {
					for _, lk := range []string{"", "concurrency+rate0"} {
						if lk != "" && (n != 1 || fill == capacity-1) {
							continue
						}
						i++
						if !r.Mine(i) {
							continue
						}
						c := rc{scope, n, trigger, fill, lk}
						if rp := r.Replay(); rp != nil {
							if json.Unmarshal(rp, &c) != nil {
								r.HarnessError("bad replay")
								return
							}
						}
						r.Eval()
						if c.Fill >= capacity {
							r.Nontrivial(vx.JSON(c))
						}
						r.Sample(c)
						var detail, kind string
						body := func() {
							kindOf := c.Kind
							if kindOf == "" {
								kindOf = "concurrency"
							}
							g, err := c11Group([]string{c.Scope}, c.N, kindOf)
							if err != nil {
								detail, kind = "init: "+err.Error(), "init"
								return
							}
							take := func(k int, d time.Duration) error {
								ctx, cancel := vsched.WithTimeout(context.Background(), d)
								defer cancel()
								ip := net.IPv4(10, byte(k>>16), byte(k>>8), byte(k))
								switch c.Scope {
								case "ip":
									return g.TakeMsg(ctx, ip, "a.org")
								case "source":
									return g.TakeMsg(ctx, net.IPv4(1, 1, 1, 1), fmt.Sprintf("d%d.org", k))
								default:
									return g.TakeDest(ctx, fmt.Sprintf("d%d.org", k))
								}
							}
							release := func(k int) {
								ip := net.IPv4(10, byte(k>>16), byte(k>>8), byte(k))
								switch c.Scope {
								case "ip":
									g.ReleaseMsg(ip, "a.org")
								case "source":
									g.ReleaseMsg(net.IPv4(1, 1, 1, 1), fmt.Sprintf("d%d.org", k))
								default:
									g.ReleaseDest(fmt.Sprintf("d%d.org", k))
								}
							}
							const busy = 0
							for j := 0; j < c.N; j++ {
								if err := take(busy, time.Second); err != nil {
									detail, kind = fmt.Sprintf("permit %d of %d of a fresh key refused: %v", j+1, c.N, err), "fresh-key-refused"
									return
								}
							}
							for k := 1; k <= c.Fill; k++ {
								if err := take(k, 50*time.Millisecond); err == nil {
									release(k)
								}
							}
							vsched.Advance(3 * time.Minute)
							if c.Trigger == "other-key" {
								if err := take(c.Fill+1, 50*time.Millisecond); err == nil {
									release(c.Fill + 1)
								}
							}
							if err := take(busy, 20*time.Millisecond); err == nil {
								detail, kind = fmt.Sprintf("a further permit of the busy key was granted although %d of %d are held (the sweep dropped its bucket with the permits in it)", c.N, c.N), "limit-exceeded-after-sweep"
								return
							}
							for j := 0; j < c.N; j++ {
								release(busy)
							}
							got := 0
							for j := 0; j < c.N+1; j++ {
								if err := take(busy, 20*time.Millisecond); err == nil {
									got++
								}
							}
							if got != c.N {
								detail, kind = fmt.Sprintf("after releasing the %d held permits, %d can be taken", c.N, got), "permit-count-after-sweep"
								return
							}
							for j := 0; j < got; j++ {
								release(busy)
							}
						}
						out := vsched.Run(nil, vsched.Options{MaxSteps: 50000000}, body)
						if len(out.Panics) > 0 {
							r.Violation("C11:reap:panic:"+vx.PanicSite(out.Panics[0]), fmt.Sprintf("%s: panic %v", vx.JSON(c), out.Panics[0]), c)
						} else if out.Deadlock || out.StepCap {
							r.Violation("C11:reap:hang", "deadlock or step cap: "+strings.Join(out.Blocked, "; "), c)
						} else if detail != "" {
							r.Violation("C11:reap:"+kind+":"+c.Scope, vx.JSON(c)+": "+detail, c)
						} else {
							r.Outcome("held-permits-survive-sweep")
						}
					}
				}
			}
		}
	}
	// ---- takes that time out must not leave their bucket unreapable ---------------------------
	for _, scope := range []string{"ip", "source", "destination"} {
		i++
		if !r.Mine(i) {
			continue
		}
		c := rc{Scope: scope, N: 1, Trigger: "every-key-saw-a-timed-out-take", Fill: capacity + 1}
		if rp := r.Replay(); rp != nil {
			var x rc
			if json.Unmarshal(rp, &x) != nil || x.Trigger != c.Trigger || x.Scope != scope {
				continue
			}
		}
		r.Eval()
		r.Nontrivial(vx.JSON(c))
		var detail string
		body := func() {
			g, err := c11Group([]string{scope}, 1, "concurrency")
			if err != nil {
				detail = "init: " + err.Error()
				return
			}
			take := func(k int, d time.Duration) error {
				ctx, cancel := vsched.WithTimeout(context.Background(), d)
				defer cancel()
				switch scope {
				case "ip":
					return g.TakeMsg(ctx, net.IPv4(10, byte(k>>16), byte(k>>8), byte(k)), "a.org")
				case "source":
					return g.TakeMsg(ctx, net.IPv4(1, 1, 1, 1), fmt.Sprintf("d%d.org", k))
				default:
					return g.TakeDest(ctx, fmt.Sprintf("d%d.org", k))
				}
			}
			release := func(k int) {
				switch scope {
				case "ip":
					g.ReleaseMsg(net.IPv4(10, byte(k>>16), byte(k>>8), byte(k)), "a.org")
				case "source":
					g.ReleaseMsg(net.IPv4(1, 1, 1, 1), fmt.Sprintf("d%d.org", k))
				default:
					g.ReleaseDest(fmt.Sprintf("d%d.org", k))
				}
			}
			for k := 0; k < c.Fill; k++ {
				if err := take(k, 50*time.Millisecond); err != nil {
					continue
				}
				if err := take(k, 10*time.Millisecond); err == nil {
					detail = fmt.Sprintf("key %d: second permit granted while the first is held", k)
					return
				}
				release(k)
			}
			// quiescence: nothing is held; once the reap interval has passed new keys must be admitted again
			vsched.Advance(3 * time.Minute)
			for k := c.Fill + 10; k < c.Fill+13; k++ {
				if err := take(k, 50*time.Millisecond); err != nil {
					detail = fmt.Sprintf("after %d keys had a timed-out take each (all permits released, reap interval passed) a new key is refused: %v", c.Fill, err)
					return
				}
				release(k)
			}
		}
		out := vsched.Run(nil, vsched.Options{MaxSteps: 50000000}, body)
		if len(out.Panics) > 0 {
			r.Violation("C11:reap:panic:"+vx.PanicSite(out.Panics[0]), fmt.Sprintf("%s: panic %v", vx.JSON(c), out.Panics[0]), c)
		} else if out.Deadlock || out.StepCap {
			r.Violation("C11:reap:hang", "deadlock or step cap: "+strings.Join(out.Blocked, "; "), c)
		} else if detail != "" {
			kind := "table-stuck-after-timeouts"
			if strings.Contains(detail, "second permit") {
				kind = "limit-not-enforced"
			}
			r.Violation("C11:reap:"+kind+":"+scope, vx.JSON(c)+": "+detail, c)
		} else {
			r.Outcome("table-recovers-after-timeouts")
		}
	}
}

var c11LastSite string

func c11Site() string { return c11LastSite }

// c11Catch runs f and records the top maddy frame of a panic.
func c11Catch(f func()) (p any) {
	defer func() {
		if p = recover(); p != nil {
			c11LastSite = vx.PanicFrame(2)
		}
	}()
	f()
	return nil
}
