package limits

// C11 (part "race") — the real limiters with real goroutines under the race
// detector (sampling; supports the data-race-freedom assumption of the
// schedule exploration).

import (
	"context"
	"fmt"
	"net"
	"sync"
	"sync/atomic"
	"testing"
	"time"

	"github.com/foxcpp/maddy/internal/verif/vx"
)

func TestVerifC11Race(t *testing.T) {
	r := vx.Start("C11", "race")
	defer r.Finish()
	r.Rule("free-running runs of the real limits.Group (all four scopes, concurrency 2) under the Go race detector: 6 deliveries (TakeMsg, TakeDest, critical section, ReleaseDest, ReleaseMsg) over 2 source and 2 destination keys, 150 iterations per shard; monitor: occupancy per scope key <= 2 (sampling)")
	if r.Replaying() {
		return
	}
	iters := 150
	for it := 0; it < iters; it++ {
		g, err := c11Group([]string{"all", "ip", "source", "destination"}, 2, "concurrency")
		if err != nil {
			r.HarnessError(err.Error())
			return
		}
		var wg sync.WaitGroup
		var occAll atomic.Int64
		occSrc := [2]*atomic.Int64{new(atomic.Int64), new(atomic.Int64)}
		occDst := [2]*atomic.Int64{new(atomic.Int64), new(atomic.Int64)}
		var bad atomic.Value
		for d := 0; d < 6; d++ {
			d := d
			wg.Add(1)
			go func() {
				defer wg.Done()
				ip := net.IPv4(10, 0, 0, 1)
				src := fmt.Sprintf("s%d.org", d%2)
				dst := fmt.Sprintf("d%d.org", (d/2)%2)
				ctx, cancel := context.WithTimeout(context.Background(), 30*time.Second)
				defer cancel()
				if err := g.TakeMsg(ctx, ip, src); err != nil {
					return
				}
				if n := occAll.Add(1); n > 2 {
					bad.Store(fmt.Sprintf("%d deliveries hold a permit of scope all (limit 2)", n))
				}
				if n := occSrc[d%2].Add(1); n > 2 {
					bad.Store(fmt.Sprintf("%d deliveries hold a permit of source %s (limit 2)", n, src))
				}
				if err := g.TakeDest(ctx, dst); err == nil {
					if n := occDst[(d/2)%2].Add(1); n > 2 {
						bad.Store(fmt.Sprintf("%d deliveries hold a permit of destination %s (limit 2)", n, dst))
					}
					occDst[(d/2)%2].Add(-1)
					g.ReleaseDest(dst)
				}
				occSrc[d%2].Add(-1)
				occAll.Add(-1)
				g.ReleaseMsg(ip, src)
			}()
		}
		wg.Wait()
		r.Eval()
		if b := bad.Load(); b != nil {
			r.Violation("C11:race:limit-exceeded", b.(string), map[string]any{"iteration": it})
			return
		}
	}
	r.Outcome("no-race-reported")
	r.Count("race_sampling_iterations", int64(iters))
	r.Assume("part race is sampling (free-running OS schedules under the race detector); it supports the data-race-freedom assumption of the exploration and is not counted as exhaustive coverage")
}
