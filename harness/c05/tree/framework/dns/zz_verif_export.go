package dns

import (
	"net"
	"time"

	"github.com/miekg/dns"
)

// VerifExtResolver builds an ExtResolver that talks to the given server only
// (the production constructor reads /etc/resolv.conf).
func VerifExtResolver(host, port string) *ExtResolver {
	cl := new(dns.Client)
	cl.Dialer = &net.Dialer{Timeout: 5 * time.Second}
	return &ExtResolver{cl: cl, Cfg: &dns.ClientConfig{Servers: []string{host}, Port: port, Ndots: 1, Timeout: 5, Attempts: 1}}
}

// VerifExtResolverServers builds an ExtResolver with the given list of servers
// (tried in order; the production constructor reads /etc/resolv.conf).
func VerifExtResolverServers(hosts []string, port string) *ExtResolver {
	cl := new(dns.Client)
	cl.Dialer = &net.Dialer{Timeout: 2 * time.Second}
	return &ExtResolver{cl: cl, Cfg: &dns.ClientConfig{Servers: hosts, Port: port, Ndots: 1, Timeout: 2, Attempts: 1}}
}
