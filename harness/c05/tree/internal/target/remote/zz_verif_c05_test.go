package remote

// C05 — message content reaches a remote MX only over a connection that
// satisfies every outbound security policy in force for that message.
//
// The real remote target (built by New + Init from configuration text, real
// mx_auth policy group with the real mtasts cache, dane, dnssec and
// local_policy modules, real connection pool and smtpconn) delivers histories
// of messages to scripted MX servers (real go-smtp servers with generated
// certificates over pipes); DNS facts are served by a mockdns server over
// loopback to the real DNSSEC-aware resolver.  The oracle looks only at what
// the servers received and over which connection, and judges it from the
// facts of the world, never from the levels the implementation computed.

import (
	"context"
	"crypto/sha256"
	"crypto/tls"
	"encoding/hex"
	"encoding/json"
	"errors"
	"fmt"
	"hash/fnv"
	"net"
	"os"
	"sort"
	"strconv"
	"strings"
	"sync"
	"testing"
	"time"

	"github.com/emersion/go-message/textproto"
	"github.com/emersion/go-smtp"
	"github.com/foxcpp/go-mockdns"
	"github.com/foxcpp/go-mtasts"
	"github.com/foxcpp/maddy/framework/buffer"
	parser "github.com/foxcpp/maddy/framework/cfgparser"
	"github.com/foxcpp/maddy/framework/config"
	maddydns "github.com/foxcpp/maddy/framework/dns"
	"github.com/foxcpp/maddy/framework/exterrors"
	"github.com/foxcpp/maddy/framework/log"
	"github.com/foxcpp/maddy/framework/module"
	"github.com/foxcpp/maddy/internal/verif/peers"
	"github.com/foxcpp/maddy/internal/verif/vx"
	"github.com/miekg/dns"
)

type c05MX struct {
	TLS    string `json:"tls"`            // "" (STARTTLS not offered), valid, selfsigned, wrongname, broken
	TLSA   string `json:"tlsa"`           // none, ee, ta, mismatch, unusable, servfail
	AD     bool   `json:"a_ad"`           // address records of the MX host are DNSSEC-authenticated
	Listed bool   `json:"sts_listed"`     // the MTA-STS policy of the domain lists this host
	Ext    bool   `json:"requiretls_ext"` // the server offers REQUIRETLS (go-smtp offers it over TLS only)
	// "", down, greet421, greet554, mail451, mail550, rcpt450, rcpt550, data451, data554, dropdata
	Fault string `json:"fault,omitempty"`
	// the MX host name is an alias (CNAME, DNSSEC status = AD) of a canonical name that
	// holds the address records and the TLSA facts; nothing is published under
	// _25._tcp.<MX host name> itself
	CNAME bool `json:"cname,omitempty"`
}

func c05FaultReply(fault string) func(stage, arg string) *smtp.SMTPError {
	if fault == "" || fault == "down" || fault == "dropdata" {
		return nil
	}
	return func(stage, arg string) *smtp.SMTPError {
		switch {
		case fault == "greet421" && stage == "session":
			return peers.Err(421, [3]int{4, 3, 2}, "not now")
		case fault == "greet554" && stage == "session":
			return peers.Err(554, [3]int{5, 3, 2}, "no service here")
		case fault == "mail451" && stage == "mail":
			return peers.Err(451, [3]int{4, 7, 1}, "greylisted")
		case fault == "mail550" && stage == "mail":
			return peers.Err(550, [3]int{5, 7, 1}, "sender refused")
		case fault == "rcpt450" && stage == "rcpt":
			return peers.Err(450, [3]int{4, 2, 1}, "mailbox busy")
		case fault == "rcpt550" && stage == "rcpt":
			return peers.Err(550, [3]int{5, 1, 1}, "no such user")
		case fault == "data451" && stage == "data":
			return peers.Err(451, [3]int{4, 3, 0}, "try later")
		case fault == "data554" && stage == "data":
			return peers.Err(554, [3]int{5, 6, 0}, "content refused")
		}
		return nil
	}
}

type c05Dom struct {
	STS    string  `json:"sts"` // "", testing, enforce
	MXAD   bool    `json:"mx_ad"`
	MXFail bool    `json:"mx_servfail"`
	// the policy host of the domain answers only after the policy of another
	// domain has been requested (or the message is over)
	STSSlow bool `json:"sts_slow,omitempty"`
	MX     []c05MX `json:"mx"`
}

type c05Cfg struct {
	MTASTS   bool   `json:"mtasts"`
	DANE     bool   `json:"dane"`
	DNSSEC   bool   `json:"dnssec"`
	Local    string `json:"local_policy"` // "" or "<min_tls_level>/<min_mx_level>"
	Override bool   `json:"requiretls_override"`
	Relaxed  bool   `json:"relaxed_requiretls"`
}

type c05Msg struct {
	Flag string `json:"flag"` // "", requiretls, notls (TLS-Required: No), quarantine
	Doms []int  `json:"domains"`
}

type c05Case struct {
	Cfg  c05Cfg   `json:"config"`
	Dom  []c05Dom `json:"domains"`
	Hist []c05Msg `json:"history"`
	// Resolver: "" = one loopback resolver; "fallback-non-loopback" = the configured loopback
	// resolver does not answer and the DNSSEC-aware answers come from a second server that
	// is not on this host: whatever AD flag it sets, nothing is DNSSEC-authenticated
	Resolver string `json:"resolver,omitempty"`
}

func c05Host(d, m int) string { return fmt.Sprintf("mx%d.d%d.example", m+1, d+1) }
func c05Domain(d int) string  { return fmt.Sprintf("d%d.example", d+1) }

type c05NopLog struct{}

func (c05NopLog) Printf(string, ...interface{}) {}

func c05TLSA(name string, usage, selector, mtype uint8, data []byte) *dns.TLSA {
	return &dns.TLSA{
		Hdr:   dns.RR_Header{Name: name, Class: dns.ClassINET, Rrtype: dns.TypeTLSA, Ttl: 9999},
		Usage: usage, Selector: selector, MatchingType: mtype, Certificate: hex.EncodeToString(data),
	}
}

// c05World materialises the facts of a case.
func c05World(c c05Case) (*peers.World, map[string]mockdns.Zone) {
	w := peers.NewWorld(rhPKI)
	zones := map[string]mockdns.Zone{}
	for di, d := range c.Dom {
		dz := mockdns.Zone{AD: d.MXAD}
		if d.MXFail {
			dz.Err = errors.New("scripted SERVFAIL")
		}
		var listed []string
		for mi, mx := range d.MX {
			host := c05Host(di, mi)
			dz.MX = append(dz.MX, net.MX{Host: host + ".", Pref: uint16(10 * (mi + 1))})
			sc := peers.Script{Host: host, TLS: mx.TLS, RequireTLS: mx.Ext, SMTPUTF8: true, Down: mx.Fault == "down", Reply: c05FaultReply(mx.Fault)}
			if mx.Fault == "dropdata" {
				sc.DropAt = "data"
			}
			w.Add(sc)
			zones[host+"."] = mockdns.Zone{A: []string{"127.0.0.1"}, AD: mx.AD}
			tn := "_25._tcp." + host + "."
			if mx.CNAME {
				canon := "canon-" + host
				zones[host+"."] = mockdns.Zone{CNAME: canon + ".", AD: mx.AD}
				zones[canon+"."] = mockdns.Zone{A: []string{"127.0.0.1"}, AD: mx.AD}
				tn = "_25._tcp." + canon + "."
			}
			switch mx.TLSA {
			case "none":
			case "servfail":
				zones[tn] = mockdns.Zone{AD: true, Err: errors.New("scripted SERVFAIL")}
			default:
				var rr *dns.TLSA
				switch mx.TLSA {
				case "ee":
					kind := mx.TLS
					if kind == "" || kind == "broken" {
						kind = "valid"
					}
					sum := sha256.Sum256(rhPKI.Cert(host, kind).Leaf.RawSubjectPublicKeyInfo)
					rr = c05TLSA(tn, 3, 1, 1, sum[:])
				case "ta":
					sum := sha256.Sum256(rhPKI.Root.Raw)
					rr = c05TLSA(tn, 2, 0, 1, sum[:])
				case "mismatch":
					sum := sha256.Sum256([]byte("some other key"))
					rr = c05TLSA(tn, 3, 1, 1, sum[:])
				case "unusable":
					sum := sha256.Sum256([]byte("whatever"))
					rr = c05TLSA(tn, 3, 1, 7, sum[:])
				default:
					panic("c05: unknown TLSA kind " + mx.TLSA)
				}
				zones[tn] = mockdns.Zone{AD: true, Misc: map[dns.Type][]dns.RR{dns.Type(dns.TypeTLSA): {rr}}}
			}
			if mx.Listed {
				listed = append(listed, host)
			}
		}
		zones[c05Domain(di)+"."] = dz
		if d.STS != "" {
			zones["_mta-sts."+c05Domain(di)+"."] = mockdns.Zone{TXT: []string{"v=STSv1; id=1"}}
		}
		_ = listed
	}
	return w, zones
}

func c05Policy(c c05Case, domain string) (*mtasts.Policy, error) {
	for di, d := range c.Dom {
		if c05Domain(di) != domain {
			continue
		}
		if d.STS == "" {
			return nil, errors.New("no policy")
		}
		p := &mtasts.Policy{MaxAge: 86400, Mode: mtasts.ModeTesting}
		if d.STS == "enforce" {
			p.Mode = mtasts.ModeEnforce
		}
		for mi, mx := range d.MX {
			if mx.Listed {
				p.MX = append(p.MX, c05Host(di, mi))
			}
		}
		if len(p.MX) == 0 {
			p.MX = []string{"unrelated.invalid"}
		}
		return p, nil
	}
	return nil, errors.New("no policy")
}

// c16Hook sees every error the target returns (used by the C16 part built on this harness).
var c16Hook func(where string, err error)

var c05Release = func() {}

var c05DNSServer *mockdns.Server

// c05DNS serves the zones of the current case from one loopback DNS server per
// process (cases run one after another; the zones are swapped between them).
func c05DNS(zones map[string]mockdns.Zone) (*mockdns.Server, error) {
	if c05DNSServer == nil {
		var err error
		for try := 0; try < 50; try++ {
			// the server takes a free TCP port and then binds the same UDP port,
			// which another process may hold
			c05DNSServer, err = mockdns.NewServerWithLogger(zones, c05NopLog{}, false)
			if err == nil {
				break
			}
		}
		if err != nil {
			return nil, err
		}
	}
	c05DNSServer.Resolver().Zones = zones
	return c05DNSServer, nil
}

// c05Target builds the target the way the server does: New, then Init on
// configuration text; only the network seams are replaced afterwards.
func c05Target(c c05Case, w *peers.World, zones map[string]mockdns.Zone, ext *maddydns.ExtResolver, release func() <-chan struct{}) (*Target, error) {
	yn := func(b bool) string {
		if b {
			return "yes"
		}
		return "no"
	}
	var sb strings.Builder
	sb.WriteString("hostname mx.verif.example\n")
	if c.Cfg.MTASTS || c.Cfg.DANE || c.Cfg.DNSSEC || c.Cfg.Local != "" {
		sb.WriteString("mx_auth {\n")
		// written in an order that differs from the application order on purpose
		if c.Cfg.Local != "" {
			lv := strings.SplitN(c.Cfg.Local, "/", 2)
			fmt.Fprintf(&sb, "  local_policy {\n    min_tls_level %s\n    min_mx_level %s\n  }\n", lv[0], lv[1])
		}
		if c.Cfg.DNSSEC {
			sb.WriteString("  dnssec\n")
		}
		if c.Cfg.DANE {
			sb.WriteString("  dane\n")
		}
		if c.Cfg.MTASTS {
			sb.WriteString("  mtasts {\n    cache ram\n  }\n")
		}
		sb.WriteString("}\n")
	}
	fmt.Fprintf(&sb, "requiretls_override %s\nrelaxed_requiretls %s\n", yn(c.Cfg.Override), yn(c.Cfg.Relaxed))
	nodes, err := parser.Read(strings.NewReader(sb.String()), "c05")
	if err != nil {
		return nil, err
	}
	m, err := New("target.remote", "c05", nil, nil)
	if err != nil {
		return nil, err
	}
	rt := m.(*Target)
	if err := rt.Init(config.NewMap(map[string]interface{}{}, config.Node{Children: nodes})); err != nil {
		return nil, fmt.Errorf("Init: %v\n%s", err, sb.String())
	}
	resolver := &mockdns.Resolver{Zones: zones}
	rt.resolver = resolver
	rt.dialer = w.Dial
	rt.extResolver = ext
	rt.tlsConfig = &tls.Config{RootCAs: w.PKI.Pool}
	rt.Log = log.Logger{Out: log.NopOutput{}}
	if os.Getenv("VERIF_C05_DEBUG") != "" {
		rt.Log = log.Logger{Out: log.WriterOutput(os.Stdout, false), Debug: true, Name: "remote"}
	}
	for _, p := range rt.policies {
		switch p := p.(type) {
		case *mtastsPolicy:
			p.cache.Resolver = resolver
			p.cache.DownloadPolicy = func(domain string) (*mtasts.Policy, error) {
				slow := false
				for di, d := range c.Dom {
					if d.STSSlow {
						slow = true
						if c05Domain(di) == domain {
							select {
							case <-release():
							case <-time.After(3 * time.Second):
							}
							return c05Policy(c, domain)
						}
					}
				}
				if slow {
					// let the slow answer arrive first
					c05Release()
					time.Sleep(20 * time.Millisecond)
				}
				return c05Policy(c, domain)
			}
			p.log = log.Logger{Out: log.NopOutput{}}
		case *danePolicy:
			p.extResolver = ext
			p.log = log.Logger{Out: log.NopOutput{}}
		}
	}
	return rt, nil
}

type c05RcptResult struct {
	Dom  int
	Err  error
	Sent bool
}

// c05Need lists the requirements a connection to the MX fails to meet for the
// message; empty means content may be transmitted over it.  It is written from
// the statement: policies in force, facts of the world, nothing else.
func c05Need(cfg c05Cfg, flag string, d c05Dom, mx c05MX, tlsOn, mailReqTLS bool) []string {
	var need []string
	if strings.HasPrefix(flag, "quarantine") {
		return []string{"quarantined"}
	}
	inForce := !(flag == "notls" && cfg.Override)
	pkix := tlsOn && mx.TLS == "valid"
	daneUsable := mx.AD && (mx.TLSA == "ee" || mx.TLSA == "ta" || mx.TLSA == "mismatch")
	danePresent := mx.AD && (daneUsable || mx.TLSA == "unusable")
	daneOK := tlsOn && mx.AD && (mx.TLSA == "ee" || (mx.TLSA == "ta" && mx.TLS == "valid"))
	daneAuth := inForce && cfg.DANE && daneOK
	level := 0
	if tlsOn {
		level = 1
	}
	if pkix || daneAuth {
		level = 2
	}
	mxLevel := 0
	if inForce && cfg.MTASTS && d.STS != "" && mx.Listed {
		mxLevel = 1
	}
	if inForce && cfg.DNSSEC && d.MXAD {
		mxLevel = 2
	}
	if inForce {
		if cfg.MTASTS && d.STS == "enforce" {
			if !mx.Listed {
				need = append(need, "mtasts-mx-not-listed")
			}
			if !pkix {
				need = append(need, "mtasts-tls-not-pkix")
			}
		}
		if cfg.DANE {
			switch {
			case mx.AD && mx.TLSA == "servfail":
				need = append(need, "dane-discovery-failed")
			case danePresent && !tlsOn:
				need = append(need, "dane-tls-missing")
			case daneUsable && !daneOK:
				need = append(need, "dane-no-match")
			}
		}
		if cfg.Local != "" {
			lv := strings.SplitN(cfg.Local, "/", 2)
			minTLS := map[string]int{"none": 0, "encrypted": 1, "authenticated": 2}[lv[0]]
			minMX := map[string]int{"none": 0, "mtasts": 1, "dnssec": 2}[lv[1]]
			if level < minTLS {
				need = append(need, "local-min-tls-"+lv[0])
			}
			if mxLevel < minMX {
				need = append(need, "local-min-mx-"+lv[1])
			}
		}
	}
	if flag == "requiretls" {
		if level < 2 {
			need = append(need, "requiretls-tls")
		}
		if mxLevel < 1 {
			need = append(need, "requiretls-mx")
		}
		if !mailReqTLS && !(cfg.Relaxed && !(mx.Ext && tlsOn)) {
			need = append(need, "requiretls-not-forwarded")
		}
	}
	return need
}

func c05Run(c c05Case) (fp, detail string, out string) {
	w, zones := c05World(c)
	defer w.Close()
	srv, err := c05DNS(zones)
	if err != nil {
		return "HARNESS", "mockdns: " + err.Error(), ""
	}
	addr := srv.LocalAddr().(*net.UDPAddr)
	ext := maddydns.VerifExtResolver(addr.IP.String(), strconv.Itoa(addr.Port))
	oc := c // the facts as the oracle sees them
	if c.Resolver == "fallback-non-loopback" {
		// 127.0.0.2:<port> has no listener; 0.0.0.0 reaches the server on this host and is not loopback
		ext = maddydns.VerifExtResolverServers([]string{"127.0.0.2", "0.0.0.0"}, strconv.Itoa(addr.Port))
		oc.Dom = nil
		for _, d := range c.Dom {
			d.MXAD = false
			mxs := append([]c05MX{}, d.MX...)
			for i := range mxs {
				mxs[i].AD = false
			}
			d.MX = mxs
			oc.Dom = append(oc.Dom, d)
		}
	}
	relCh := make(chan struct{})
	var relOnce sync.Once
	c05Release = func() { relOnce.Do(func() { close(relCh) }) }
	defer c05Release()
	tgt, err := c05Target(c, w, zones, ext, func() <-chan struct{} { return relCh })
	if err != nil {
		return "HARNESS", err.Error(), ""
	}
	defer tgt.Close()

	hdr := textproto.Header{}
	hdr.Add("Subject", "c05")
	results := make([][]c05RcptResult, len(c.Hist))
	for k, m := range c.Hist {
		ctx := context.Background()
		meta := &module.MsgMetadata{ID: fmt.Sprintf("c05-%d", k)}
		switch m.Flag {
		case "requiretls":
			meta.SMTPOpts.RequireTLS = true
		case "notls":
			meta.TLSRequireOverride = true
		case "quarantine":
			meta.Quarantine = true
		}
		from := fmt.Sprintf("m%d@sender.example", k)
		dl, err := tgt.Start(ctx, meta, from)
		if err != nil {
			return "HARNESS", "Start: " + err.Error(), ""
		}
		accepted := map[string]int{}
		for _, di := range m.Doms {
			rc := "u@" + c05Domain(di)
			err := dl.AddRcpt(ctx, rc, smtp.RcptOptions{})
			if c16Hook != nil {
				c16Hook("AddRcpt "+rc, err)
			}
			results[k] = append(results[k], c05RcptResult{Dom: di, Err: err})
			if err == nil {
				accepted[rc] = len(results[k]) - 1
			}
		}
		c05Release()
		if strings.HasPrefix(m.Flag, "quarantine-late") {
			// a body-stage check of the pipeline quarantines the message after the recipients were accepted
			meta.Quarantine = true
		}
		if len(accepted) > 0 && (m.Flag == "quarantine-late-atomic" || m.Flag == "atomic") {
			// "atomic": an ordinary message handed over through the all-or-nothing body path
			err := dl.Body(ctx, hdr, buffer.MemoryBuffer{Slice: []byte("content of message " + strconv.Itoa(k) + "\r\n")})
			if c16Hook != nil {
				c16Hook("Body", err)
			}
			for _, i := range accepted {
				results[k][i].Err = err
				results[k][i].Sent = err == nil
			}
			if err == nil {
				dl.Commit(ctx)
			} else {
				dl.Abort(ctx)
			}
		} else if len(accepted) > 0 {
			st := &rhStatus{}
			dl.(module.PartialDelivery).BodyNonAtomic(ctx, st, hdr, buffer.MemoryBuffer{Slice: []byte("content of message " + strconv.Itoa(k) + "\r\n")})
			for rc, i := range accepted {
				e, ok := st.errs[rc]
				if !ok {
					e = errors.New("no status")
				}
				if c16Hook != nil {
					c16Hook("status "+rc, e)
				}
				results[k][i].Err = e
				results[k][i].Sent = e == nil
			}
			dl.Commit(ctx)
		} else {
			dl.Abort(ctx)
		}
	}

	// ---- oracle on what the servers saw ------------------------------------------------
	seenConn := map[int]int{} // connection -> first message that used it
	var outs []string
	for _, t := range w.Txns() {
		var k int
		if _, err := fmt.Sscanf(t.From, "m%d@sender.example", &k); err != nil || k >= len(c.Hist) {
			return "HARNESS", "unexpected sender " + t.From, ""
		}
		first, reused := seenConn[t.ConnID]
		if !reused {
			seenConn[t.ConnID] = k
		}
		reused = reused && first != k
		if t.Data == nil {
			continue
		}
		var di, mi int
		if _, err := fmt.Sscanf(t.Host, "mx%d.d%d.example", &mi, &di); err != nil {
			return "HARNESS", "unexpected host " + t.Host, ""
		}
		di, mi = di-1, mi-1
		m := c.Hist[k]
		need := c05Need(c.Cfg, m.Flag, oc.Dom[di], oc.Dom[di].MX[mi], t.TLS, t.MailOpts.RequireTLS)
		o := fmt.Sprintf("m%d->%s tls=%v", k, t.Host, t.TLS)
		if reused {
			o += " pooled"
		}
		outs = append(outs, o)
		if len(need) > 0 {
			fp := "C05:content-sent:" + need[0]
			if reused {
				fp += ":pooled-connection"
			}
			if len(m.Doms) > 1 && di == m.Doms[1] {
				fp += ":second-domain"
			}
			return fp, fmt.Sprintf("message %d (flag %q) was transmitted to %s over a connection (TLS=%v, certificate %q, opened for message %d) that does not satisfy: %v", k, m.Flag, t.Host, t.TLS, c.Dom[di].MX[mi].TLS, seenConn[t.ConnID], need), ""
		}
	}
	// ---- discovery failures defer ------------------------------------------------------
	for k, m := range c.Hist {
		if strings.HasPrefix(m.Flag, "quarantine") {
			continue
		}
		inForce := !(m.Flag == "notls" && c.Cfg.Override)
		for _, r := range results[k] {
			d := oc.Dom[r.Dom]
			why := ""
			if d.MXFail {
				why = "mx-lookup-servfail"
			} else if inForce && c.Cfg.DANE {
				only := true
				for _, mx := range d.MX {
					tlsOn := mx.TLS == "valid" || mx.TLS == "selfsigned" || mx.TLS == "wrongname"
					n := c05Need(c.Cfg, m.Flag, d, mx, tlsOn, mx.Ext && tlsOn)
					if len(n) != 1 || n[0] != "dane-discovery-failed" {
						only = false
					}
				}
				if only {
					why = "tlsa-lookup-servfail"
				}
			}
			if why == "" {
				continue
			}
			outs = append(outs, fmt.Sprintf("m%d d%d %s temp=%v", k, r.Dom+1, why, r.Err != nil && exterrors.IsTemporary(r.Err)))
			if r.Err == nil {
				// content-sent is reported above when the MX was not allowed; for an MX
				// lookup failure there is no MX at all
				return "C05:not-deferred:" + why + ":delivered", fmt.Sprintf("message %d to %s reported success", k, c05Domain(r.Dom)), ""
			}
			if !exterrors.IsTemporary(r.Err) {
				return "C05:not-deferred:" + why + ":permanent-failure", fmt.Sprintf("message %d to %s failed permanently: %v", k, c05Domain(r.Dom), r.Err), ""
			}
		}
	}
	for k := range results {
		for _, r := range results[k] {
			if r.Err != nil {
				cl := "perm"
				if exterrors.IsTemporary(r.Err) {
					cl = "temp"
				}
				outs = append(outs, fmt.Sprintf("m%d d%d refused %s", k, r.Dom+1, cl))
			}
		}
	}
	sort.Strings(outs)
	return "", "", strings.Join(outs, "; ")
}

// c05IsCanon reports whether every fact the statement does not let the
// configuration observe has its default value; quick runs explore such cases only.
func c05IsCanon(c c05Case) bool {
	anyReq, anyNo := false, false
	for _, m := range c.Hist {
		anyReq = anyReq || m.Flag == "requiretls"
		anyNo = anyNo || m.Flag == "notls"
	}
	if !anyReq && !c.Cfg.Relaxed {
		return false
	}
	if !anyNo && !c.Cfg.Override {
		return false
	}
	for _, d := range c.Dom {
		if !c.Cfg.MTASTS && d.STS != "" {
			return false
		}
		if !c.Cfg.DNSSEC && d.MXAD {
			return false
		}
		for _, mx := range d.MX {
			if !c.Cfg.DANE && (mx.AD || mx.TLSA != "none") {
				return false
			}
			if !mx.AD && mx.TLSA != "none" {
				return false
			}
			if d.STS == "" && mx.Listed {
				return false
			}
			if !anyReq && mx.Ext {
				return false
			}
		}
	}
	return true
}

// c05Normalise gives unobservable facts their default value.
func c05Normalise(c c05Case) c05Case {
	n := c05Case{Cfg: c.Cfg, Hist: c.Hist, Resolver: c.Resolver}
	anyReq, anyNo := false, false
	for _, m := range c.Hist {
		anyReq = anyReq || m.Flag == "requiretls"
		anyNo = anyNo || m.Flag == "notls"
	}
	if !anyReq {
		n.Cfg.Relaxed = true
	}
	if !anyNo {
		n.Cfg.Override = true
	}
	for _, d := range c.Dom {
		nd := d
		nd.MX = nil
		if !c.Cfg.MTASTS {
			nd.STS = ""
		}
		if !c.Cfg.DNSSEC {
			nd.MXAD = false
		}
		for _, mx := range d.MX {
			if !c.Cfg.DANE {
				mx.AD, mx.TLSA = false, "none"
			}
			if !mx.AD {
				mx.TLSA = "none"
			}
			if nd.STS == "" {
				mx.Listed = false
			}
			if !anyReq {
				mx.Ext = false
			}
			nd.MX = append(nd.MX, mx)
		}
		n.Dom = append(n.Dom, nd)
	}
	return n
}

var (
	c05TLSKinds  = []string{"", "valid", "selfsigned", "wrongname", "broken"}
	c05TLSAKinds = []string{"none", "ee", "ta", "mismatch", "unusable", "servfail"}
	c05Flags     = []string{"", "requiretls", "notls", "quarantine"}
	c05Locals    = []string{"", "none/none", "encrypted/none", "authenticated/none", "none/mtasts", "encrypted/mtasts", "authenticated/mtasts", "none/dnssec", "encrypted/dnssec", "authenticated/dnssec"}
	c05LocalsFew = []string{"", "encrypted/none", "authenticated/none", "authenticated/mtasts", "none/dnssec"}
	bools        = []bool{false, true}
)

func c05Cfgs(locals []string, flags bool) []c05Cfg {
	var out []c05Cfg
	for _, a := range bools {
		for _, b := range bools {
			for _, d := range bools {
				for _, l := range locals {
					if !flags {
						out = append(out, c05Cfg{MTASTS: a, DANE: b, DNSSEC: d, Local: l, Override: true, Relaxed: true})
						continue
					}
					for _, o := range bools {
						for _, r := range bools {
							out = append(out, c05Cfg{MTASTS: a, DANE: b, DNSSEC: d, Local: l, Override: o, Relaxed: r})
						}
					}
				}
			}
		}
	}
	return out
}

func c05MXs(tlsKinds, tlsaKinds []string, ads, listed, exts []bool) []c05MX {
	var out []c05MX
	for _, t := range tlsKinds {
		for _, a := range tlsaKinds {
			for _, ad := range ads {
				for _, l := range listed {
					for _, e := range exts {
						out = append(out, c05MX{TLS: t, TLSA: a, AD: ad, Listed: l, Ext: e})
					}
				}
			}
		}
	}
	return out
}

func TestVerifC05(t *testing.T) {
	log.DefaultLogger.Out = log.NopOutput{}
	r := vx.Start("C05", "remote")
	defer r.Finish()
	r.Rule("real remote target (New+Init from configuration text; real mx_auth group with mtasts cache, dane, dnssec, local_policy; real pool and smtpconn) delivering histories of 1-3 messages to scripted MX servers; families: (A) one message, one MX: configurations {mtasts,dane,dnssec} x local_policy {absent, 3 TLS levels x 3 MX levels} x requiretls_override x relaxed_requiretls, message flag {none, REQUIRETLS, TLS-Required: No, quarantined}, MTA-STS {none, testing, enforce} x MX listed, MX RRset AD on/off, STARTTLS {not offered, valid, self-signed, wrong name, handshake failing}, TLSA {none, EE match, TA match, mismatch, unusable, SERVFAIL} x address AD on/off, REQUIRETLS offered or not, MX lookup SERVFAIL; (G) the same for an MX host name that is a CNAME (TLSA facts at the canonical name, dane policy on); (Q) messages quarantined after the recipients were accepted, on the atomic and the per-recipient body path; (B) two MX candidates; (C) histories of 2-3 messages to one domain sharing the pool; (D) messages to two domains; (R) the DNSSEC-aware answers (AD set) come from a resolver that is not on this host while the loopback one does not answer: nothing is DNSSEC-authenticated. Oracle: for every transaction in which a server received message content, the requirements of the statement computed from the facts and the TLS state seen by the server; discovery failures must yield temporary errors. Quick tier explores only cases whose irrelevant facts are canonical. Non-trivial: distinct cases in which some policy is in force and content was either transmitted or refused")
	if rp := r.Replay(); rp != nil {
		var c c05Case
		if json.Unmarshal(rp, &c) != nil {
			r.HarnessError("bad replay")
			return
		}
		fp, detail, _ := c05Run(c)
		r.Eval()
		if fp == "HARNESS" {
			r.HarnessError(detail)
		} else if fp != "" {
			r.Violation(fp, detail, c)
		}
		return
	}
	if r.Replaying() {
		return
	}
	idx := 0
	family := ""
	prune := !vx.Thorough()
	seen := map[uint64]bool{}
	emit := func(c c05Case) {
		if f := os.Getenv("VERIF_C05_FAMILY"); f != "" && !strings.Contains(f, family) {
			return
		}
		if prune && family == "A" && !c05IsCanon(c) {
			return
		}
		if prune && family != "A" {
			// the reduced families are normalised instead of filtered
			c = c05Normalise(c)
			h := fnv.New64a()
			h.Write([]byte(vx.JSON(c)))
			if seen[h.Sum64()] {
				return
			}
			seen[h.Sum64()] = true
		}
		for di := range c.Dom {
			if c.Dom[di].STS == "" {
				for _, mx := range c.Dom[di].MX {
					if mx.Listed {
						return // no policy to be listed in
					}
				}
			}
		}
		idx++
		r.Count("cases_"+family, 0)
		if !r.Mine(idx) {
			return
		}
		if os.Getenv("VERIF_C05_COUNT") != "" {
			r.Count("cases_"+family, 1)
			r.Eval()
			r.Nontrivial(strconv.Itoa(idx))
			return
		}
		r.Count("cases_"+family, 1)
		if lim, _ := strconv.Atoi(os.Getenv("VERIF_C05_LIMIT")); lim > 0 && idx > lim*r.Of {
			return
		}
		t0 := time.Now()
		fp, detail, out := c05Run(c)
		r.Count("ms_"+family, time.Since(t0).Milliseconds())
		if el := time.Since(t0); el > 300*time.Millisecond && os.Getenv("VERIF_C05_SLOW") != "" {
			fmt.Printf("SLOW %v %s\n", el, vx.JSON(c))
		}
		r.Eval()
		if fp == "HARNESS" {
			r.HarnessError(detail + "\ncase: " + vx.JSON(c))
			return
		}
		if fp != "" {
			r.Violation(fp, detail+"\ncase: "+vx.JSON(c), c)
			return
		}
		if out != "" {
			r.Nontrivial(vx.JSON(c))
		}
		r.Outcome(c05OutcomeClass(out))
		if idx%20011 == 0 {
			r.Sample(map[string]any{"case": c, "observed": out})
		}
	}
	one := func(mx c05MX, sts string, mxad bool) []c05Dom {
		return []c05Dom{{STS: sts, MXAD: mxad, MX: []c05MX{mx}}}
	}
	stsModes := []string{"", "testing", "enforce"}

	// (A) one message, one MX, full product
	family = "A"
	allMX := c05MXs(c05TLSKinds, c05TLSAKinds, bools, bools, bools)
	for _, cfg := range c05Cfgs(c05Locals, true) {
		for _, f := range c05Flags {
			for _, sts := range stsModes {
				for _, mxad := range bools {
					for _, mx := range allMX {
						emit(c05Case{Cfg: cfg, Dom: one(mx, sts, mxad), Hist: []c05Msg{{Flag: f, Doms: []int{0}}}})
					}
				}
			}
			d := one(c05MX{TLS: "valid", TLSA: "none", AD: true}, "", true)
			d[0].MXFail = true
			emit(c05Case{Cfg: cfg, Dom: d, Hist: []c05Msg{{Flag: f, Doms: []int{0}}}})
		}
	}

	// (G) one message, one MX whose host name is a CNAME: TLSA facts live at the canonical name
	family = "G"
	for _, cfg := range c05Cfgs(c05LocalsFew, false) {
		if !cfg.DANE {
			continue
		}
		for _, f := range c05Flags {
			for _, mx := range c05MXs([]string{"", "valid", "selfsigned"}, c05TLSAKinds, bools, []bool{false}, []bool{true}) {
				mx.CNAME = true
				emit(c05Case{Cfg: cfg, Dom: one(mx, "", true), Hist: []c05Msg{{Flag: f, Doms: []int{0}}}})
			}
		}
	}

	// (Q) the message is quarantined by a body-stage check, i.e. after the recipients were accepted;
	// both body paths of the target
	family = "Q"
	for _, cfg := range c05Cfgs(c05LocalsFew, false) {
		for _, f := range []string{"quarantine-late", "quarantine-late-atomic"} {
			for _, mx := range c05MXs([]string{"", "valid"}, []string{"none"}, []bool{true}, []bool{false}, []bool{true}) {
				emit(c05Case{Cfg: cfg, Dom: one(mx, "", true), Hist: []c05Msg{{Flag: f, Doms: []int{0}}}})
				emit(c05Case{Cfg: cfg, Dom: []c05Dom{{MXAD: true, MX: []c05MX{mx}}, {MXAD: true, MX: []c05MX{mx}}}, Hist: []c05Msg{{Flag: f, Doms: []int{0, 1}}}})
			}
		}
	}

	// (B) two MX candidates
	family = "B"
	first := c05MXs([]string{"", "valid", "selfsigned", "broken"}, []string{"none", "ee", "mismatch", "servfail"}, []bool{true}, bools, []bool{true})
	second := c05MXs([]string{"", "valid", "selfsigned"}, []string{"none", "ee", "mismatch"}, []bool{true}, bools, []bool{true})
	for _, cfg := range c05Cfgs(c05LocalsFew, false) {
		for _, f := range c05Flags {
			for _, sts := range stsModes {
				for _, m1 := range first {
					for _, m2 := range second {
						emit(c05Case{Cfg: cfg, Dom: []c05Dom{{STS: sts, MXAD: true, MX: []c05MX{m1, m2}}}, Hist: []c05Msg{{Flag: f, Doms: []int{0}}}})
					}
				}
			}
		}
	}

	// (C) histories sharing the pool
	family = "C"
	histMX := c05MXs(c05TLSKinds, []string{"none", "ee", "mismatch"}, []bool{true}, bools, bools)
	var hists [][]c05Msg
	for _, a := range c05Flags {
		for _, b := range c05Flags {
			hists = append(hists, []c05Msg{{Flag: a, Doms: []int{0}}, {Flag: b, Doms: []int{0}}})
		}
	}
	for _, a := range c05Flags {
		for _, b := range c05Flags {
			for _, d := range c05Flags {
				if a == "quarantine" || b == "quarantine" {
					continue // a quarantined message opens nothing; covered at length 2
				}
				hists = append(hists, []c05Msg{{Flag: a, Doms: []int{0}}, {Flag: b, Doms: []int{0}}, {Flag: d, Doms: []int{0}}})
			}
		}
	}
	localsC := c05LocalsFew
	if prune {
		localsC = []string{"", "encrypted/none", "authenticated/mtasts"}
	}
	for _, cfg := range c05Cfgs(localsC, true) {
		for _, h := range hists {
			if len(h) == 3 && prune && (!(cfg.Override && cfg.Relaxed) || (h[0].Flag != "notls" && h[1].Flag != "notls")) {
				continue // quick: three-message histories only around an overridden message
			}
			for _, sts := range stsModes {
				for _, mx := range histMX {
					emit(c05Case{Cfg: cfg, Dom: one(mx, sts, true), Hist: h})
				}
			}
		}
	}

	// (D) messages to two domains
	family = "D"
	dmx := c05MXs([]string{"", "valid", "selfsigned"}, []string{"none"}, []bool{true}, bools, bools)
	var cfgsD []c05Cfg
	for _, cfg := range c05Cfgs(c05LocalsFew, true) {
		if !cfg.DANE {
			cfgsD = append(cfgsD, cfg)
		}
	}
	var histsD [][]c05Msg
	for _, f := range c05Flags {
		histsD = append(histsD, []c05Msg{{Flag: f, Doms: []int{0, 1}}})
		for _, g := range []string{"", "requiretls"} {
			histsD = append(histsD, []c05Msg{{Flag: f, Doms: []int{0, 1}}, {Flag: g, Doms: []int{1}}})
		}
	}
	for _, cfg := range cfgsD {
		for _, h := range histsD {
			for _, s1 := range []string{"", "enforce"} {
				for _, s2 := range []string{"", "enforce"} {
					for _, m1 := range dmx {
						for _, m2 := range dmx {
							emit(c05Case{Cfg: cfg, Dom: []c05Dom{{STS: s1, MXAD: true, MX: []c05MX{m1}}, {STS: s2, MXAD: true, MX: []c05MX{m2}}}, Hist: h})
						}
					}
				}
			}
		}
	}
	// (E) a slow MTA-STS policy host for a domain whose MX lookup fails, followed by a second domain
	family = "E"
	for _, local := range []string{"", "none/mtasts", "encrypted/none"} {
		for _, f := range []string{"", "notls", "requiretls"} {
			for _, s1 := range stsModes {
				for _, m2 := range c05MXs([]string{"", "valid", "selfsigned"}, []string{"none"}, []bool{false}, bools, []bool{true}) {
					for _, s2 := range []string{"testing", "enforce"} {
						d1 := c05Dom{STS: s1, MXFail: true, STSSlow: true, MX: []c05MX{{TLS: "valid", TLSA: "none", Listed: s1 != ""}}}
						d2 := c05Dom{STS: s2, MX: []c05MX{m2}}
						emit(c05Case{Cfg: c05Cfg{MTASTS: true, Local: local, Override: true, Relaxed: true}, Dom: []c05Dom{d1, d2}, Hist: []c05Msg{{Flag: f, Doms: []int{0, 1}}}})
					}
				}
			}
		}
	}
	// (F) first MX candidate out of order in a scripted way, fallback to the second
	family = "F"
	for _, cfg := range c05Cfgs(c05LocalsFew, false) {
		for _, f := range c05Flags {
			for _, sts := range stsModes {
				for _, fault := range []string{"down", "greet421", "greet554", "mail451", "mail550", "rcpt550", "data451", "dropdata"} {
					for _, l1 := range bools {
						for _, m2 := range second {
							m1 := c05MX{TLS: "valid", TLSA: "none", AD: true, Listed: l1, Ext: true, Fault: fault}
							emit(c05Case{Cfg: cfg, Dom: []c05Dom{{STS: sts, MXAD: true, MX: []c05MX{m1, m2}}}, Hist: []c05Msg{{Flag: f, Doms: []int{0}}, {Flag: "", Doms: []int{0}}}})
						}
					}
				}
			}
		}
	}
	// (R) the DNSSEC-aware answers come from a resolver that is not on this host
	family = "R"
	for _, cfg := range []c05Cfg{
		{DNSSEC: true, Local: "none/dnssec", Override: true},
		{DNSSEC: true, Override: true},
		{DANE: true, Override: true},
		{MTASTS: true, DANE: true, DNSSEC: true, Local: "authenticated/dnssec", Override: true},
	} {
		for _, f := range []string{"", "requiretls"} {
			for _, mx := range []c05MX{
				{TLS: "valid", TLSA: "none", AD: true, Ext: true},
				{TLS: "valid", TLSA: "ee", AD: true, Ext: true},
				{TLS: "", TLSA: "ee", AD: true},
				{TLS: "selfsigned", TLSA: "ee", AD: true, Ext: true},
				{TLS: "selfsigned", TLSA: "mismatch", AD: true, Ext: true},
			} {
				emit(c05Case{Cfg: cfg, Dom: []c05Dom{{MXAD: true, MX: []c05MX{mx}}}, Hist: []c05Msg{{Flag: f, Doms: []int{0}}}, Resolver: "fallback-non-loopback"})
			}
		}
	}
	r.Bound("cases_enumerated", idx)
	r.Bound("max_history", 3)
	r.Bound("max_mx_candidates", 2)
}

func c05OutcomeClass(out string) string {
	var cl []string
	has := func(s string) bool { return strings.Contains(out, s) }
	if has("tls=true") {
		cl = append(cl, "sent-tls")
	}
	if has("tls=false") {
		cl = append(cl, "sent-plain")
	}
	if has("pooled") {
		cl = append(cl, "pooled")
	}
	if has("refused temp") {
		cl = append(cl, "deferred")
	}
	if has("refused perm") {
		cl = append(cl, "rejected")
	}
	if len(cl) == 0 {
		return "nothing"
	}
	return strings.Join(cl, "+")
}
