package queue

// Shared queue harness (C01, C02, C10, C12, C18): monitored scripted targets,
// queue construction with production timing on the virtual clock, helpers to
// run a history to quiescence under the controlled scheduler.

import (
	"bufio"
	"bytes"
	"context"
	"errors"
	"fmt"
	"io"
	"os"
	"regexp"
	"sort"
	"strings"
	"time"

	"github.com/emersion/go-message/textproto"
	"github.com/emersion/go-smtp"
	"github.com/foxcpp/maddy/framework/buffer"
	"github.com/foxcpp/maddy/framework/exterrors"
	"github.com/foxcpp/maddy/framework/log"
	"github.com/foxcpp/maddy/framework/module"
	"github.com/foxcpp/maddy/internal/verif/vos"
	"github.com/foxcpp/maddy/internal/verif/vsched"
)

// result classes of a scripted stage
const (
	qhOK = iota
	qhT  // Temporary() == true
	qhP  // Temporary() == false
	qhU  // plain error: unclassified
	qhST // *exterrors.SMTPError 4xx
	qhSP // *exterrors.SMTPError 5xx
)

var qhClassNames = []string{"ok", "T", "P", "U", "S4", "S5"}

// replies of the next hop are multi-line and not limited to ASCII (go-smtp joins
// the lines of a reply with "\n")
const qhReplyTail = "\nzweite Zeile: Postfach größer als erlaubt"

func qhErr(class int, what string) error {
	switch class {
	case qhT:
		return exterrors.WithTemporary(errors.New(what+": scripted temporary failure"), true)
	case qhP:
		return exterrors.WithTemporary(errors.New(what+": scripted permanent failure"), false)
	case qhU:
		return errors.New(what + ": scripted unclassified failure")
	case qhST:
		return &exterrors.SMTPError{Code: 451, EnhancedCode: exterrors.EnhancedCode{4, 4, 1}, Message: "scripted 451 " + what + qhReplyTail}
	case qhSP:
		return &exterrors.SMTPError{Code: 550, EnhancedCode: exterrors.EnhancedCode{5, 1, 1}, Message: "scripted 550 " + what + qhReplyTail}
	}
	return nil
}

// retryable tells how the documented rules treat a class.
func qhRetryable(class int) bool { return class == qhT || class == qhU || class == qhST }

// qhDeliv is the record of one delivery opened on a monitored target.
type qhDeliv struct {
	Seq      int
	MsgID    string // base ID (without the per-attempt suffix)
	FullID   string
	Attempt  int // 1-based, per base ID
	From     string
	Offered  []string // AddRcpt arguments in order
	Accepted []string // AddRcpt returned nil
	RcptErr  map[string]int
	BodySeen bool
	NonAtom  bool
	Header   textproto.Header
	Body     []byte
	Meta     *module.MsgMetadata
	Status   map[string]int // per-recipient body status classes set (partial)
	BodyErr  int
	Closed   string // "", "commit", "abort"
	CommitOK bool
	Events   []string
	MetaSnap string // spool .meta content at Start (state left by the previous attempt)
}

// qhTarget is a scripted, monitored module.DeliveryTarget.
type qhTarget struct {
	name    string
	partial bool
	// decide returns the result class for a stage of an attempt:
	// stage in {"start","rcpt","body","status","commit","abort"}.
	decide func(d *qhDeliv, stage, rcpt string) int
	dels   []*qhDeliv
	viol   []string
	perMsg map[string]int
	spool  string // when set, .meta of the message is snapshotted at Start
	// commitNote, when set, is appended to the commit marker (bounce targets: recipients named by the report)
	commitNote func(d *qhDeliv) string
	onEvent func(ev string)
}

func (t *qhTarget) Name() string         { return "verif_target" }
func (t *qhTarget) InstanceName() string { return t.name }

func (t *qhTarget) ask(d *qhDeliv, stage, rcpt string) int {
	if t.decide == nil {
		return qhOK
	}
	return t.decide(d, stage, rcpt)
}

func (t *qhTarget) bad(d *qhDeliv, what string) {
	t.viol = append(t.viol, fmt.Sprintf("%s delivery #%d (%s attempt %d): %s [%s]", t.name, d.Seq, d.MsgID, d.Attempt, what, strings.Join(d.Events, ",")))
}

func qhBaseID(id string) string {
	if i := strings.LastIndex(id, "-"); i > 0 {
		return id[:i]
	}
	return id
}

type qhDelivery struct {
	t *qhTarget
	d *qhDeliv
}

type qhDeliveryPartial struct{ *qhDelivery }

func (t *qhTarget) Start(ctx context.Context, msgMeta *module.MsgMetadata, mailFrom string) (module.Delivery, error) {
	if t.perMsg == nil {
		t.perMsg = map[string]int{}
	}
	base := qhBaseID(msgMeta.ID)
	t.perMsg[base]++
	d := &qhDeliv{Seq: len(t.dels), MsgID: base, FullID: msgMeta.ID, Attempt: t.perMsg[base], From: mailFrom, RcptErr: map[string]int{}, Status: map[string]int{}, Meta: msgMeta.DeepCopy()}
	if t.spool != "" {
		b, _ := os.ReadFile(t.spool + "/" + base + ".meta")
		d.MetaSnap = string(b)
	}
	t.dels = append(t.dels, d)
	d.Events = append(d.Events, "start")
	t.event(fmt.Sprintf("%s:start:%s:%d", t.name, base, d.Attempt))
	if c := t.ask(d, "start", ""); c != qhOK {
		d.Closed = "start-failed"
		d.Events = append(d.Events, "start="+qhClassNames[c])
		return nil, qhErr(c, "start")
	}
	dl := &qhDelivery{t, d}
	if t.partial {
		return &qhDeliveryPartial{dl}, nil
	}
	return dl, nil
}

func (t *qhTarget) event(ev string) {
	vos.Mark(ev)
	if t.onEvent != nil {
		t.onEvent(ev)
	}
}

func (q *qhDelivery) AddRcpt(ctx context.Context, rcptTo string, _ smtp.RcptOptions) error {
	d := q.d
	if d.Closed != "" {
		q.t.bad(d, "AddRcpt after "+d.Closed)
	}
	if d.BodySeen {
		q.t.bad(d, "AddRcpt after Body")
	}
	d.Offered = append(d.Offered, rcptTo)
	q.t.event(fmt.Sprintf("%s:offer:%s:%d:%s", q.t.name, d.MsgID, d.Attempt, rcptTo))
	c := q.t.ask(d, "rcpt", rcptTo)
	d.Events = append(d.Events, "rcpt("+rcptTo+")="+qhClassNames[c])
	if c != qhOK {
		d.RcptErr[rcptTo] = c
		return qhErr(c, "rcpt "+rcptTo)
	}
	d.Accepted = append(d.Accepted, rcptTo)
	return nil
}

func (q *qhDelivery) readBody(header textproto.Header, body buffer.Buffer) {
	d := q.d
	if d.Closed != "" {
		q.t.bad(d, "Body after "+d.Closed)
	}
	if d.BodySeen {
		q.t.bad(d, "Body called twice")
	}
	if len(d.Accepted) == 0 {
		q.t.bad(d, "Body without accepted recipients")
	}
	d.BodySeen = true
	d.Header = header.Copy()
	r, err := body.Open()
	if err == nil {
		d.Body, _ = io.ReadAll(r)
		r.Close()
	} else {
		q.t.bad(d, "body.Open: "+err.Error())
	}
}

func (q *qhDelivery) Body(ctx context.Context, header textproto.Header, body buffer.Buffer) error {
	q.readBody(header, body)
	c := q.t.ask(q.d, "body", "")
	q.d.BodyErr = c
	q.d.Events = append(q.d.Events, "body="+qhClassNames[c])
	return qhErr(c, "body")
}

func (q *qhDeliveryPartial) BodyNonAtomic(ctx context.Context, sc module.StatusCollector, header textproto.Header, body buffer.Buffer) {
	q.readBody(header, body)
	q.d.NonAtom = true
	for _, r := range q.d.Accepted {
		c := q.t.ask(q.d, "status", r)
		q.d.Status[r] = c
		q.d.Events = append(q.d.Events, "status("+r+")="+qhClassNames[c])
		sc.SetStatus(r, qhErr(c, "status "+r))
	}
}

func (q *qhDelivery) Abort(ctx context.Context) error {
	d := q.d
	if d.Closed == "commit" && !d.CommitOK {
		// clean-up after a failed Commit: the interface contract does not forbid it
		d.Events = append(d.Events, "abort-after-failed-commit")
		return nil
	}
	if d.Closed != "" {
		q.t.bad(d, "Abort after "+d.Closed)
	}
	d.Closed = "abort"
	d.Events = append(d.Events, "abort")
	q.t.event(fmt.Sprintf("%s:abort:%s:%d", q.t.name, d.MsgID, d.Attempt))
	return qhErr(q.t.ask(d, "abort", ""), "abort")
}

func (q *qhDelivery) Commit(ctx context.Context) error {
	d := q.d
	if d.Closed != "" {
		q.t.bad(d, "Commit after "+d.Closed)
	}
	if !d.BodySeen {
		q.t.bad(d, "Commit without Body")
	}
	c := q.t.ask(d, "commit", "")
	d.Closed = "commit"
	d.CommitOK = c == qhOK
	d.Events = append(d.Events, "commit="+qhClassNames[c])
	if c == qhOK {
		note := strings.Join(q.delivered(), ",")
		if q.t.commitNote != nil {
			note = q.t.commitNote(d)
		}
		q.t.event(fmt.Sprintf("%s:commit:%s:%d:%s", q.t.name, d.MsgID, d.Attempt, note))
	} else {
		q.t.event(fmt.Sprintf("%s:commit-failed:%s:%d", q.t.name, d.MsgID, d.Attempt))
	}
	return qhErr(c, "commit")
}

// delivered lists the recipients for which this committed delivery counts as delivered.
func (q *qhDelivery) delivered() []string { return q.d.DeliveredRcpts() }

func (d *qhDeliv) DeliveredRcpts() []string {
	var rs []string
	if d.Closed != "commit" || !d.CommitOK {
		return nil
	}
	for _, r := range d.Accepted {
		if d.NonAtom && d.Status[r] != qhOK {
			continue
		}
		rs = append(rs, r)
	}
	return rs
}

// ---- queue construction ---------------------------------------------------------------

type qhQueueOpts struct {
	dir         string
	target      module.DeliveryTarget
	bounce      module.DeliveryTarget
	maxTries    int
	parallelism int
}

func qhNewQueue(o qhQueueOpts) (*Queue, error) {
	mod, _ := NewQueue("", "queue", nil, nil)
	q := mod.(*Queue)
	// production timing (15 min initial retry, x1.25, 10 s post-init delay): the clock is virtual
	q.maxTries = o.maxTries
	q.location = o.dir
	q.Target = o.target
	q.hostname = "mx.verif.example"
	q.autogenMsgDomain = "verif.example"
	if o.bounce != nil {
		q.dsnPipeline = o.bounce
	}
	q.Log = log.Logger{Out: log.NopOutput{}}
	if os.Getenv("VERIF_QUEUE_DEBUG") != "" {
		q.Log = log.Logger{Out: log.WriterOutput(os.Stderr, false), Debug: true, Name: "queue"}
	}
	p := o.parallelism
	if p == 0 {
		p = 1
	}
	if err := q.start(p); err != nil {
		return nil, err
	}
	return q, nil
}

type qhMsg struct {
	ID     string
	From   string
	Rcpts  []string
	Header textproto.Header
	Body   []byte
	Meta   *module.MsgMetadata
	// the client (or a later pipeline target) gives up: the transaction is aborted
	AbortAfterBody  bool
	AbortBeforeBody bool
}

var qhFinalRcpt = regexp.MustCompile(`(?mi)^Final-Recipient:\s*(?:rfc822|utf-?8)\s*;\s*(\S+)\s*$`)

// qhNamed lists the recipients named by a failure report body.
func qhNamed(body []byte) []string {
	var named []string
	for _, m := range qhFinalRcpt.FindAllStringSubmatch(string(body), -1) {
		named = append(named, m[1])
	}
	return named
}

func qhHeader(s string) textproto.Header {
	h, err := textproto.ReadHeader(bufio.NewReader(strings.NewReader(s)))
	if err != nil {
		panic(err)
	}
	return h
}

func qhSimpleMsg(id, from string, rcpts ...string) qhMsg {
	return qhMsg{ID: id, From: from, Rcpts: rcpts,
		Header: qhHeader("From: <" + from + ">\r\nTo: <x@example.org>\r\nSubject: verif " + id + "\r\n\r\n"),
		Body:   []byte("body of " + id + "\r\n"),
	}
}

// qhSubmit pushes one message into the queue; returns the first error and the
// stage at which it occurred ("" = acknowledged).
func qhSubmit(q *Queue, m qhMsg) (string, error) {
	meta := m.Meta
	if meta == nil {
		meta = &module.MsgMetadata{}
	}
	meta = meta.DeepCopy()
	meta.ID = m.ID
	meta.OriginalFrom = m.From
	ctx := context.Background()
	d, err := q.Start(ctx, meta, m.From)
	if err != nil {
		return "start", err
	}
	for _, r := range m.Rcpts {
		if err := d.AddRcpt(ctx, r, smtp.RcptOptions{}); err != nil {
			d.Abort(ctx)
			return "rcpt", err
		}
	}
	if m.AbortAfterBody || m.AbortBeforeBody {
		if m.AbortAfterBody {
			if err := d.Body(ctx, m.Header, buffer.MemoryBuffer{Slice: m.Body}); err != nil {
				d.Abort(ctx)
				vos.Mark("aborted:" + m.ID)
				return "body", err
			}
		}
		d.Abort(ctx)
		vos.Mark("aborted:" + m.ID)
		return "aborted", nil
	}
	if err := d.Body(ctx, m.Header, buffer.MemoryBuffer{Slice: m.Body}); err != nil {
		d.Abort(ctx)
		vos.Mark("aborted:" + m.ID)
		return "body", err
	}
	if err := d.Commit(ctx); err != nil {
		return "commit", err
	}
	vos.Mark("ack:" + m.ID)
	return "", nil
}

// qhRun executes body as the root controlled thread under the default
// schedule and keeps firing virtual timers until nothing is pending.
func qhRun(body func()) *vsched.Outcome {
	return vsched.Run(nil, vsched.Options{KeepEnv: true, MaxSteps: 30000}, body)
}

// qhRunAt is qhRun with the virtual clock starting at the given offset (a
// restart happens later than the run it follows).
func qhRunAt(at time.Duration, body func()) *vsched.Outcome {
	return vsched.Run(nil, vsched.Options{KeepEnv: true, MaxSteps: 30000, StartAt: at}, body)
}

func qhSpoolFiles(dir string) []string {
	es, _ := os.ReadDir(dir)
	var ns []string
	for _, e := range es {
		ns = append(ns, e.Name())
	}
	sort.Strings(ns)
	return ns
}

func qhSerializeHeader(h textproto.Header) []byte {
	var b bytes.Buffer
	textproto.WriteHeader(&b, h)
	return b.Bytes()
}

var _ = time.Second
