package remote

// Shared pieces of the outbound harnesses (C05, C08, C09, C16).

import (
	"crypto/tls"
	"fmt"
	"sync"

	"github.com/foxcpp/go-mockdns"
	"github.com/foxcpp/maddy/framework/exterrors"
	"github.com/foxcpp/maddy/framework/log"
	"github.com/foxcpp/maddy/framework/module"
	"github.com/foxcpp/maddy/internal/limits"
	"github.com/foxcpp/maddy/internal/smtpconn/pool"
	"github.com/foxcpp/maddy/internal/verif/peers"
)

type rhStatus struct {
	mu    sync.Mutex
	calls []string
	errs  map[string]error
}

func (s *rhStatus) SetStatus(r string, err error) {
	s.mu.Lock()
	s.calls = append(s.calls, r)
	if s.errs == nil {
		s.errs = map[string]error{}
	}
	s.errs[r] = err
	s.mu.Unlock()
}

var rhPKI = peers.NewPKI()

// rhTarget builds a real remote target wired to a scripted world.
func rhTarget(w *peers.World, zones map[string]mockdns.Zone, policies []module.MXAuthPolicy) *Target {
	resolver := &mockdns.Resolver{Zones: zones}
	return &Target{
		name:      "remote",
		hostname:  "mx.verif.example",
		resolver:  resolver,
		dialer:    w.Dial,
		tlsConfig: &tls.Config{RootCAs: w.PKI.Pool},
		Log:       log.Logger{Out: log.NopOutput{}},
		policies:  policies,
		limits:    &limits.Group{},
		connReuseLimit: 10,
		pool: pool.New(pool.Config{MaxKeys: 5000, MaxConnsPerKey: 5, MaxConnLifetimeSec: 150, StaleKeyLifetimeSec: 300}),
	}
}

var rhErrs []string // every error produced by the target (checked for class coherence, C16)

func rhNoteErr(where string, err error) {
	if err == nil {
		return
	}
	var se *exterrors.SMTPError
	if !asSMTP(err, &se) {
		return
	}
	code, ench := se.Code, se.EnhancedCode
	if ench[0] != 0 && code/100 != ench[0] {
		rhErrs = append(rhErrs, fmt.Sprintf("%s: %d %d.%d.%d %q", where, code, ench[0], ench[1], ench[2], se.Message))
	}
	if (code/100 == 4) != exterrors.IsTemporaryOrUnspec(err) && code != 0 {
		rhErrs = append(rhErrs, fmt.Sprintf("%s: code %d but temporary=%v %q", where, code, exterrors.IsTemporaryOrUnspec(err), se.Message))
	}
}

func asSMTP(err error, out **exterrors.SMTPError) bool {
	for err != nil {
		if se, ok := err.(*exterrors.SMTPError); ok {
			*out = se
			return true
		}
		u, ok := err.(interface{ Unwrap() error })
		if !ok {
			return false
		}
		err = u.Unwrap()
	}
	return false
}

