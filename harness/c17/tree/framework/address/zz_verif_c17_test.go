package address

// C17 — address normalisation is a consistent equivalence and conversions
// round-trip. Exhaustive enumeration; see /verif/DESIGN.md §4 C17.

import (
	"encoding/json"
	"fmt"
	"strings"
	"testing"
	"unicode"
	"unicode/utf8"

	"github.com/foxcpp/maddy/framework/dns"
	"github.com/foxcpp/maddy/internal/verif/vx"
	"golang.org/x/net/idna"
	"golang.org/x/text/unicode/norm"
)

var c17Atoms = []string{
	"a", "B", "1", ".", "@", "\"", "\\", " ", "-",
	"é", "e", "́", "İ", "ß", "ẞ", "ς", "σ", "Σ",
	"ǰ", "J", "̌", "Ａ", "\u0080", "\u007f",
	"xn--bcher-kva", "XN--BCHER-KVA", "Xn--p1ai", "xn--a",
}

type c17Case struct {
	Kind string   `json:"kind"`
	S    []string `json:"s"`
}

func c17Quoted(s string) string { return fmt.Sprintf("%+q", s) }

// c17String checks everything that is quantified over *all* strings.
func c17String(r *vx.Run, s string) {
	r.Eval()
	cs := c17Case{"string", []string{s}}
	var key, key2 string
	var kerr error
	helpers := []struct {
		name string
		f    func()
	}{
		{"Split", func() { Split(s) }},
		{"ForLookup", func() { key, kerr = ForLookup(s) }},
		{"CleanDomain", func() { CleanDomain(s) }},
		{"Equal", func() { Equal(s, s+"x"); Equal("a@b", s) }},
		{"IsASCII", func() { IsASCII(s) }},
		{"ToASCII", func() { ToASCII(s) }},
		{"ToUnicode", func() { ToUnicode(s) }},
		{"SelectIDNA", func() { SelectIDNA(true, s); SelectIDNA(false, s) }},
		{"UnquoteMbox", func() { UnquoteMbox(s) }},
		{"QuoteMbox", func() { QuoteMbox(s) }},
		{"Valid", func() { Valid(s) }},
		{"ValidMailboxName", func() { ValidMailboxName(s) }},
		{"ValidDomain", func() { ValidDomain(s) }},
		{"PRECISFold", func() { PRECISFold(s) }},
		{"PRECIS", func() { PRECIS(s) }},
		{"FQDNDomain", func() { FQDNDomain(s) }},
		{"dns.ForLookup", func() { dns.ForLookup(s) }},
		{"dns.Equal", func() { dns.Equal(s, "a") }},
		{"dns.SelectIDNA", func() { dns.SelectIDNA(true, s); dns.SelectIDNA(false, s) }},
		{"dns.FQDN", func() { dns.FQDN(s) }},
	}
	for _, h := range helpers {
		if p := vx.Catch(h.f); p != nil {
			r.Violation("C17:string:panic:"+h.name, fmt.Sprintf("%s(%s) panicked: %v", h.name, c17Quoted(s), p), cs)
		}
	}
	// IsASCII <=> all characters below U+0080
	want := true
	for _, ch := range s {
		if ch >= 0x80 {
			want = false
		}
	}
	if got := IsASCII(s); got != want {
		first := rune(0)
		for _, ch := range s {
			if ch >= 0x80 {
				first = ch
				break
			}
		}
		r.Violation(fmt.Sprintf("C17:string:IsASCII:U+%04X", first), fmt.Sprintf("IsASCII(%s)=%v, want %v", c17Quoted(s), got, want), cs)
	}
	// reflexivity, and agreement of Equal with itself under key equality
	if !Equal(s, s) {
		r.Violation("C17:string:Equal-not-reflexive", c17Quoted(s), cs)
	}
	key2, _ = ForLookup(s)
	if key != key2 {
		r.Violation("C17:string:ForLookup-nondeterministic", c17Quoted(s), cs)
	}
	switch {
	case kerr != nil:
		r.Outcome("string: no lookup key (refused)")
	case Valid(s):
		r.Outcome("string: valid address with a lookup key")
	default:
		r.Outcome("string: lookup key for a string that is not a valid address")
	}
	if kerr == nil && s != "" {
		r.Nontrivial("s:" + key)
	}
	if !dns.Equal(s, s) {
		r.Violation("C17:string:dns.Equal-not-reflexive", c17Quoted(s), cs)
	}
	// Spelling variants of the local part of every *valid* address of the
	// enumeration map to the same key (the local part is free-form UTF-8, so
	// every variant is again a valid address; the domain is left untouched).
	if kerr == nil && Valid(s) {
		if mbox, domain, err := Split(s); err == nil && domain != "" && !strings.HasPrefix(mbox, "\"") {
			vars := map[string]string{"nfd": norm.NFD.String(mbox), "nfc": norm.NFC.String(mbox), "lower": c17MapRunes(mbox, unicode.ToLower)}
			if !strings.ContainsRune(mbox, 0x3c2) {
				vars["upper"] = c17MapRunes(mbox, unicode.ToUpper)
				vars["upper-nfd"] = c17MapRunes(norm.NFD.String(mbox), unicode.ToUpper)
			}
			for _, vn := range []string{"nfd", "nfc", "lower", "upper", "upper-nfd"} {
				v, ok := vars[vn]
				if !ok || v == mbox {
					continue
				}
				r.Count("local_variants", 1)
				k2, err := ForLookup(v + "@" + domain)
				if err != nil || k2 != key {
					r.Violation("C17:string-variant:"+vn, fmt.Sprintf("ForLookup(%s)=%s but the %s spelling %s has key %s (%v)", c17Quoted(s), c17Quoted(key), vn, c17Quoted(v+"@"+domain), c17Quoted(k2), err), cs)
				}
			}
		}
	}
}

// c17Pair: Equal is symmetric and coincides with equality of lookup keys.
func c17Pair(r *vx.Run, a, b string, ka, kb string, da, db string) {
	r.Eval()
	e1, e2 := Equal(a, b), Equal(b, a)
	if e1 {
		r.Outcome("pair: equal")
	} else {
		r.Outcome("pair: different")
	}
	if e1 != e2 {
		r.Violation("C17:pair:Equal-not-symmetric", c17Quoted(a)+" / "+c17Quoted(b), c17Case{"pair", []string{a, b}})
	}
	if e1 != (ka == kb) {
		r.Violation("C17:pair:Equal-vs-key", fmt.Sprintf("Equal(%s,%s)=%v but keys %s / %s", c17Quoted(a), c17Quoted(b), e1, c17Quoted(ka), c17Quoted(kb)), c17Case{"pair", []string{a, b}})
	}
	d1, d2 := dns.Equal(a, b), dns.Equal(b, a)
	if d1 != d2 {
		r.Violation("C17:pair:dns.Equal-not-symmetric", c17Quoted(a)+" / "+c17Quoted(b), c17Case{"pair", []string{a, b}})
	}
	if d1 != (da == db) {
		r.Violation("C17:pair:dns.Equal-vs-key", fmt.Sprintf("dns.Equal(%s,%s)=%v but keys %s / %s", c17Quoted(a), c17Quoted(b), d1, c17Quoted(da), c17Quoted(db)), c17Case{"pair", []string{a, b}})
	}
	if e1 && a != b {
		r.Nontrivial("p:" + a + "\x00" + b)
	}
}

func c17Enumerate(maxLen int, f func(idx int, s string)) {
	idx := 0
	var rec func(prefix string, depth int)
	rec = func(prefix string, depth int) {
		f(idx, prefix)
		idx++
		if depth == maxLen {
			return
		}
		for _, a := range c17Atoms {
			rec(prefix+a, depth+1)
		}
	}
	rec("", 0)
}

// ---- valid addresses and their spelling orbits --------------------------------

// canonical (lower-case, NFC) local parts; all valid unquoted or quoted mailboxes.
var c17Locals = []string{
	"a", "ab1", "a.b", "a-b", "é", "café", "ǰ", "xǰ", "straße", "σσ",
	"οδός", // οδός: final sigma
	"\"a b\"", "\"a@b\"", "\"a\\\"b\"", "postmaster", "a\u0080b",
	"İb", "ǅ", "ẞx", "\u212a", "\u212b", "\u2126", "Ǆ", "I\u0307", "J\u030c",
}

// IDNA2008-valid U-labels in canonical form.
var c17Labels = []string{
	"example", "bücher", "пример", "рф", "org", "a1",
	"straße", "οδός", "xǰ",
}

func c17MapRunes(s string, f func(rune) rune) string { return strings.Map(f, s) }

func c17TitleFirst(s string) string {
	r, n := utf8.DecodeRuneInString(s)
	if n == 0 {
		return s
	}
	return string(unicode.ToTitle(r)) + s[n:]
}

// letter-case / normalisation variants (simple per-rune case mappings only:
// the property speaks of letter case, not of full case folding such as ß→SS).
func c17TextVariants(s string) map[string]string {
	up := c17MapRunes(s, unicode.ToUpper)
	nfd := norm.NFD.String(s)
	return map[string]string{
		"id":        s,
		"upper":     up,
		"title":     c17TitleFirst(s),
		"nfd":       nfd,
		"upper-nfd": c17MapRunes(nfd, unicode.ToUpper),
		"nfd-upper": norm.NFD.String(up),
		"nfc-upper": norm.NFC.String(up),
	}
}

func c17LabelVariants(l string) map[string]string {
	v := c17TextVariants(l)
	if a, err := idna.ToASCII(l); err == nil && a != l {
		v["alabel"] = a
		v["alabel-upper"] = strings.ToUpper(a)
		v["alabel-mixed"] = "Xn" + a[2:]
		v["alabel-upfix"] = "XN" + a[2:]
	}
	return v
}

func c17Fingerprint(kind, variant, base string) string {
	// Fingerprints name the law and the *cause class* of the spelling variant, so
	// that one defect has one fingerprint and a different defect a different one.
	cause := "variant=" + variant
	switch {
	case variant == "final-sigma":
		cause = "final-sigma"
	case strings.Contains(variant, "alabel-"):
		cause = "alabel-letter-case"
	case strings.Contains(variant, "nfd") && strings.Contains(variant, "upper"):
		cause = "decomposed-upper-case"
	}
	return "C17:" + kind + ":" + cause
}

func c17IsASCII(s string) bool {
	for i := 0; i < len(s); i++ {
		if s[i] >= 0x80 {
			return false
		}
	}
	return true
}

func c17Orbit(r *vx.Run, local string, labels []string) {
	domain := strings.Join(labels, ".")
	base := local + "@" + domain
	if local == "postmaster" && len(labels) == 0 {
		base = local
	}
	cs := func(v string) c17Case { return c17Case{"orbit", []string{base, v}} }
	baseKey, err := ForLookup(base)
	r.Eval()
	if err != nil {
		r.Violation("C17:orbit:base-rejected", fmt.Sprintf("ForLookup(%s): %v", c17Quoted(base), err), cs(base))
		return
	}
	if !Valid(base) {
		r.Violation("C17:orbit:base-invalid", fmt.Sprintf("Valid(%s)=false", c17Quoted(base)), cs(base))
	}
	baseClean, err := CleanDomain(base)
	if err != nil {
		r.Violation("C17:orbit:base-rejected-clean", fmt.Sprintf("CleanDomain(%s): %v", c17Quoted(base), err), cs(base))
	}
	// variants: local part spelling x per-label spelling (one label varied at a time, and all at once)
	lv := c17TextVariants(local)
	if strings.HasPrefix(local, "\"") || local == "postmaster" {
		lv = map[string]string{"id": local, "upper": c17MapRunes(local, unicode.ToUpper)}
	}
	type dv struct {
		name, dom string
		ls        []string
	}
	doms := []dv{{"id", domain, labels}}
	if len(labels) > 0 {
		per := make([]map[string]string, len(labels))
		for i, l := range labels {
			per[i] = c17LabelVariants(l)
		}
		for i := range labels {
			for _, vn := range vx.SortedKeys(per[i]) {
				ls := append([]string{}, labels...)
				ls[i] = per[i][vn]
				doms = append(doms, dv{vn, strings.Join(ls, "."), ls})
			}
		}
		for _, vn := range vx.SortedKeys(per[0]) {
			ls := make([]string, len(labels))
			ok := true
			for i := range labels {
				x, has := per[i][vn]
				if !has {
					ok = false
					break
				}
				ls[i] = x
			}
			if ok {
				doms = append(doms, dv{vn, strings.Join(ls, "."), ls})
			}
		}
	}
	for _, ln := range vx.SortedKeys(lv) {
		for _, d := range doms {
			v := lv[ln]
			if d.dom != "" {
				v += "@" + d.dom
			}
			r.Eval()
			r.Outcome("orbit: spelling variant compared with the base key")
			r.Nontrivial("o:" + v)
			vname := "local-" + ln + "/domain-" + d.name
			// cause by intervention: if restoring the base spelling of the components
			// that contain a final sigma makes the variant agree again, the final
			// sigma is the cause (known finding); otherwise it is something else.
			if strings.ContainsRune(base, 0x3c2) {
				l2 := lv[ln]
				if strings.ContainsRune(local, 0x3c2) {
					l2 = local
				}
				ls2 := append([]string{}, d.ls...)
				for i := range ls2 {
					if strings.ContainsRune(labels[i], 0x3c2) {
						ls2[i] = labels[i]
					}
				}
				v2 := l2
				if len(ls2) > 0 {
					v2 += "@" + strings.Join(ls2, ".")
				}
				k2, err2 := ForLookup(v2)
				c2, err3 := CleanDomain(v2)
				c1, _ := CleanDomain(lv[ln] + "@" + d.dom)
				kk, _ := ForLookup(v)
				if err2 == nil && err3 == nil && k2 == baseKey && (ln != "id" || c2 == baseClean) && (kk != baseKey || c1 != c2) && v2 != v {
					vname = "final-sigma"
				}
			}
			k, err := ForLookup(v)
			if err != nil {
				r.Violation(c17Fingerprint("orbit-key-error", vname, base), fmt.Sprintf("ForLookup(%s): %v", c17Quoted(v), err), cs(v))
				continue
			}
			if k != baseKey {
				r.Violation(c17Fingerprint("orbit-key", vname, base), fmt.Sprintf("ForLookup(%s)=%s but ForLookup(%s)=%s", c17Quoted(v), c17Quoted(k), c17Quoted(base), c17Quoted(baseKey)), cs(v))
			}
			if !Equal(v, base) && k == baseKey {
				r.Violation("C17:orbit:Equal-vs-key", c17Quoted(v), cs(v))
			}
			// Equal coincides with key equality also for neighbours of the variant that are not
			// spelling variants in the sense of the orbit: a trailing dot after the domain, one
			// more letter (the answer may be either, it has to agree with the keys)
			if d.dom != "" {
				for _, pv := range []string{v + ".", strings.ToUpper(v) + ".", v + "x", "x" + v} {
					kp, errp := ForLookup(pv)
					if errp != nil {
						continue
					}
					e1, e2 := Equal(v, pv), Equal(pv, v)
					r.Eval()
					if e1 != e2 {
						r.Violation("C17:orbit:Equal-not-symmetric", c17Quoted(v)+" / "+c17Quoted(pv), c17Case{"pair", []string{v, pv}})
					}
					if e1 != (kp == k) {
						r.Violation("C17:orbit:Equal-vs-key:neighbour", fmt.Sprintf("Equal(%s,%s)=%v but keys %s / %s", c17Quoted(v), c17Quoted(pv), e1, c17Quoted(k), c17Quoted(kp)), c17Case{"pair", []string{v, pv}})
					}
					// transitivity through the base spelling
					if Equal(pv, v) && Equal(v, base) && !Equal(pv, base) {
						r.Violation("C17:orbit:Equal-not-transitive", fmt.Sprintf("%s = %s = %s but not %s = %s", c17Quoted(pv), c17Quoted(v), c17Quoted(base), c17Quoted(pv), c17Quoted(base)), c17Case{"pair", []string{pv, base}})
					}
				}
			}
			// idempotence of the lookup key
			if k2, err := ForLookup(k); err != nil || k2 != k {
				r.Violation(c17Fingerprint("idempotence-ForLookup", vname, base), fmt.Sprintf("ForLookup(%s)=%s, applied again: %s (%v)", c17Quoted(v), c17Quoted(k), c17Quoted(k2), err), cs(v))
			}
			// domain cleaning: domain spelling variants map to one value (local part untouched), idempotent
			if ln == "id" {
				c, err := CleanDomain(v)
				if err != nil {
					r.Violation(c17Fingerprint("orbit-clean-error", vname, base), fmt.Sprintf("CleanDomain(%s): %v", c17Quoted(v), err), cs(v))
				} else {
					if c != baseClean {
						r.Violation(c17Fingerprint("orbit-clean", vname, base), fmt.Sprintf("CleanDomain(%s)=%s but CleanDomain(%s)=%s", c17Quoted(v), c17Quoted(c), c17Quoted(base), c17Quoted(baseClean)), cs(v))
					}
					if c2, err := CleanDomain(c); err != nil || c2 != c {
						r.Violation(c17Fingerprint("idempotence-CleanDomain", vname, base), fmt.Sprintf("CleanDomain(%s)=%s, applied again: %s (%v)", c17Quoted(v), c17Quoted(c), c17Quoted(c2), err), cs(v))
					}
					if m, _, err := Split(c); err == nil && d.dom != "" && m != lv[ln] {
						r.Violation("C17:clean:local-part-changed", c17Quoted(v)+" -> "+c17Quoted(c), cs(v))
					}
				}
			}
			// the same laws for the DNS-name helpers
			if ln == "id" && d.dom != "" {
				dk, err := dns.ForLookup(d.dom)
				bk, _ := dns.ForLookup(domain)
				if err != nil || dk != bk {
					r.Violation(c17Fingerprint("dns-orbit-key", vname, base), fmt.Sprintf("dns.ForLookup(%s)=%s (%v) but dns.ForLookup(%s)=%s", c17Quoted(d.dom), c17Quoted(dk), err, c17Quoted(domain), c17Quoted(bk)), cs(v))
				} else if dk2, err := dns.ForLookup(dk); err != nil || dk2 != dk {
					r.Violation(c17Fingerprint("dns-idempotence", vname, base), fmt.Sprintf("dns.ForLookup(%s)=%s, again %s", c17Quoted(d.dom), c17Quoted(dk), c17Quoted(dk2)), cs(v))
				}
				if !dns.Equal(d.dom, domain) && dk == bk {
					r.Violation("C17:orbit:dns.Equal-vs-key", c17Quoted(d.dom), cs(v))
				}
			}
			// split / re-join
			if d.dom != "" {
				m, dd, err := Split(v)
				if err != nil || m+"@"+dd != v || m != lv[ln] || dd != d.dom {
					r.Violation("C17:roundtrip:Split", fmt.Sprintf("Split(%s) = %s, %s, %v", c17Quoted(v), c17Quoted(m), c17Quoted(dd), err), cs(v))
				}
			}
		}
	}
	// ASCII/Unicode conversion round trip on the canonical forms
	if len(labels) > 0 {
		if c17IsASCII(local) {
			a, err := ToASCII(base)
			if err != nil {
				r.Violation("C17:roundtrip:ToASCII-error", fmt.Sprintf("ToASCII(%s): %v", c17Quoted(base), err), cs(base))
			} else {
				if !c17IsASCII(a) {
					r.Violation("C17:roundtrip:ToASCII-not-ascii", c17Quoted(base)+" -> "+c17Quoted(a), cs(base))
				}
				u, err := ToUnicode(a)
				if err != nil || u != base {
					r.Violation("C17:roundtrip:ToUnicode(ToASCII)", fmt.Sprintf("%s -> %s -> %s (%v)", c17Quoted(base), c17Quoted(a), c17Quoted(u), err), cs(base))
				}
				a2, err := ToASCII(u)
				if err != nil || a2 != a {
					r.Violation("C17:roundtrip:ToASCII(ToUnicode)", fmt.Sprintf("%s -> %s -> %s (%v)", c17Quoted(a), c17Quoted(u), c17Quoted(a2), err), cs(base))
				}
				if k, _ := ForLookup(a); k != baseKey {
					r.Violation(c17Fingerprint("orbit-key", "ToASCII", base), c17Quoted(a), cs(a))
				}
			}
		} else if _, err := ToASCII(base); err == nil {
			r.Violation("C17:ToASCII:non-ascii-local-accepted", c17Quoted(base), cs(base))
		}
		u, err := ToUnicode(base)
		if err != nil || u != base {
			r.Violation("C17:roundtrip:ToUnicode-canonical", fmt.Sprintf("ToUnicode(%s)=%s (%v)", c17Quoted(base), c17Quoted(u), err), cs(base))
		}
	}
}

// quoting: UnquoteMbox(QuoteMbox(m)) == m for every non-empty raw local part
func c17Quote(r *vx.Run, m string) {
	r.Eval()
	r.Outcome("quote: round trip evaluated")
	q := QuoteMbox(m)
	u, err := UnquoteMbox(q)
	if err != nil || u != m {
		r.Violation("C17:roundtrip:Quote", fmt.Sprintf("QuoteMbox(%s)=%s, UnquoteMbox -> %s (%v)", c17Quoted(m), c17Quoted(q), c17Quoted(u), err), c17Case{"quote", []string{m}})
	}
	if q != m {
		r.Nontrivial("q:" + m)
		// a quoted local part is a valid mailbox and splits back
		if mm, d, err := Split(q + "@example.org"); err != nil || mm != q || d != "example.org" {
			r.Violation("C17:roundtrip:Split-quoted", c17Quoted(q), c17Case{"quote", []string{m}})
		}
	}
}

func TestVerifC17(t *testing.T) {
	r := vx.Start("C17", "laws")
	defer r.Finish()
	r.Rule("every string of <= L atoms over a 28-atom alphabet (helpers must not panic; IsASCII/Equal laws); every ordered pair of strings of <= P atoms (Equal symmetric and == key equality, same for dns.Equal); every generated valid address (15 local parts x 1-2 of 9 IDNA2008-valid labels) under every letter-case / NFC-NFD / A-label-U-label spelling variant (one key, idempotent, round trips); QuoteMbox/UnquoteMbox over all raw local parts of <= L atoms. Non-trivial: distinct lookup keys of parsable strings, distinct equal pairs, distinct orbit members, distinct local parts that need quoting")
	if rp := r.Replay(); rp != nil {
		var c c17Case
		if err := json.Unmarshal(rp, &c); err != nil {
			r.HarnessError("bad replay case")
			return
		}
		switch c.Kind {
		case "string":
			c17String(r, c.S[0])
		case "pair":
			ka, _ := ForLookup(c.S[0])
			kb, _ := ForLookup(c.S[1])
			da, _ := dns.ForLookup(c.S[0])
			db, _ := dns.ForLookup(c.S[1])
			c17Pair(r, c.S[0], c.S[1], ka, kb, da, db)
		case "quote":
			c17Quote(r, c.S[0])
		case "orbit":
			m, d, err := Split(c.S[0])
			if err != nil {
				r.HarnessError("bad orbit base")
				return
			}
			var ls []string
			if d != "" {
				ls = strings.Split(d, ".")
			}
			c17Orbit(r, m, ls)
		}
		return
	}
	if r.Replaying() {
		return
	}
	L, P := 4, 2
	if vx.Thorough() {
		L, P = 5, 3
	}
	r.Bound("alphabet_atoms", len(c17Atoms))
	r.Bound("string_len", L)
	r.Bound("pair_len", P)
	// all strings
	c17Enumerate(L, func(idx int, s string) {
		if r.Mine(idx) {
			c17String(r, s)
			c17Quote2(r, s)
			if idx%100003 == 7 {
				r.Sample(map[string]string{"string": c17Quoted(s)})
			}
		}
	})
	// all pairs
	var ss, ks, ds []string
	c17Enumerate(P, func(idx int, s string) {
		k, _ := ForLookup(s)
		d, _ := dns.ForLookup(s)
		ss, ks, ds = append(ss, s), append(ks, k), append(ds, d)
	})
	for i := range ss {
		if !r.Mine(i) {
			continue
		}
		for j := range ss {
			c17Pair(r, ss[i], ss[j], ks[i], ks[j], ds[i], ds[j])
		}
	}
	// orbits of valid addresses
	n := 0
	for _, l := range c17Locals {
		for i, a := range c17Labels {
			n++
			if r.Mine(n) {
				c17Orbit(r, l, []string{a})
				if n%17 == 0 {
					r.Sample(map[string]string{"orbit-base": c17Quoted(l + "@" + a)})
				}
			}
			for j, b := range c17Labels {
				_ = i
				_ = j
				n++
				if r.Mine(n) {
					c17Orbit(r, l, []string{a, b})
				}
			}
		}
	}
	if r.Mine(0) {
		c17Orbit(r, "postmaster", nil)
	}
}

func c17Quote2(r *vx.Run, s string) {
	if s != "" {
		c17Quote(r, s)
	}
}
