// Package vos stands in for the subset of package os used by maddy's queue
// (files rewritten with `vrewrite -mode os`). Calls go to the real file system;
// when a Recorder is installed every *mutating* operation is also appended to
// an operation log from which any crash state (prefix, torn write, un-synced
// data dropped) can be materialised into a fresh directory.
package vos

import (
	"io/fs"
	"os"
	"path/filepath"
	"sort"
)

const ModePerm = os.ModePerm

type FileInfo = fs.FileInfo
type DirEntry = fs.DirEntry
type FileMode = fs.FileMode

// Op is one logged event: a mutating file operation or a harness marker.
type Op struct {
	Kind string // create, write, sync, rename, remove, mkdir, marker
	Path string // relative to the recorder root
	To   string // rename target
	File int    // file identity for write/sync
	Data []byte // written bytes
	Note string // marker text
}

// Recorder collects the operation log of one run.
type Recorder struct {
	Root   string
	Ops    []Op
	nextID int
	// FailAt: if >= 0 the FailAt-th mutating operation (0-based) and all later
	// ones fail with an I/O error (fault injection; unused by crash checks).
	FailAt int
}

// Rec is the active recorder (nil: plain pass-through).
var Rec *Recorder

func NewRecorder(root string) *Recorder { return &Recorder{Root: root, FailAt: -1} }

func (r *Recorder) rel(p string) (string, bool) {
	rel, err := filepath.Rel(r.Root, p)
	if err != nil || len(rel) >= 2 && rel[:2] == ".." {
		return p, false
	}
	return rel, true
}

// Mark appends a harness marker (acknowledgement, delivery, report, ...).
func Mark(note string) {
	if Rec != nil {
		Rec.Ops = append(Rec.Ops, Op{Kind: "marker", Note: note})
	}
}

func (r *Recorder) log(o Op) { r.Ops = append(r.Ops, o) }

// MutatingOps counts the logged file operations (markers excluded).
func (r *Recorder) MutatingOps() int {
	n := 0
	for _, o := range r.Ops {
		if o.Kind != "marker" {
			n++
		}
	}
	return n
}

type File struct {
	f  *os.File
	id int
	rp string
	ok bool
}

func Create(name string) (*File, error) {
	f, err := os.Create(name)
	if err != nil {
		return nil, err
	}
	vf := &File{f: f}
	if Rec != nil {
		if rp, ok := Rec.rel(name); ok {
			Rec.nextID++
			vf.id, vf.rp, vf.ok = Rec.nextID, rp, true
			Rec.log(Op{Kind: "create", Path: rp, File: vf.id})
		}
	}
	return vf, nil
}

func Open(name string) (*File, error) {
	f, err := os.Open(name)
	if err != nil {
		return nil, err
	}
	return &File{f: f}, nil
}

func (f *File) Write(b []byte) (int, error) {
	n, err := f.f.Write(b)
	if f.ok && Rec != nil && n > 0 {
		Rec.log(Op{Kind: "write", Path: f.rp, File: f.id, Data: append([]byte(nil), b[:n]...)})
	}
	return n, err
}

func (f *File) WriteString(s string) (int, error) { return f.Write([]byte(s)) }
func (f *File) Read(b []byte) (int, error)        { return f.f.Read(b) }
func (f *File) Close() error                      { return f.f.Close() }
func (f *File) Name() string                      { return f.f.Name() }
func (f *File) Stat() (FileInfo, error)           { return f.f.Stat() }
func (f *File) Sync() error {
	err := f.f.Sync()
	if f.ok && Rec != nil && err == nil {
		Rec.log(Op{Kind: "sync", Path: f.rp, File: f.id})
	}
	return err
}

func Remove(name string) error {
	err := os.Remove(name)
	if err == nil && Rec != nil {
		if rp, ok := Rec.rel(name); ok {
			Rec.log(Op{Kind: "remove", Path: rp})
		}
	}
	return err
}

func Rename(from, to string) error {
	err := os.Rename(from, to)
	if err == nil && Rec != nil {
		rf, ok1 := Rec.rel(from)
		rt, ok2 := Rec.rel(to)
		if ok1 && ok2 {
			Rec.log(Op{Kind: "rename", Path: rf, To: rt})
		}
	}
	return err
}

func MkdirAll(p string, m FileMode) error { return os.MkdirAll(p, m) }
func Stat(name string) (FileInfo, error)  { return os.Stat(name) }
func ReadDir(name string) ([]DirEntry, error) {
	return os.ReadDir(name)
}
func IsNotExist(err error) bool            { return os.IsNotExist(err) }
func IsExist(err error) bool               { return os.IsExist(err) }
func ReadFile(name string) ([]byte, error) { return os.ReadFile(name) }

// ---- crash-state materialisation ---------------------------------------------------

type mfile struct {
	data   []byte
	synced []byte
}

// State is the modelled directory content after a prefix of the log.
type State struct {
	byPath map[string]*mfile
	byID   map[int]*mfile
}

// Initial files that existed before the run (path -> content), all durable.
func replay(initial map[string][]byte, ops []Op, n int, torn int) *State {
	st := &State{byPath: map[string]*mfile{}, byID: map[int]*mfile{}}
	for p, d := range initial {
		st.byPath[p] = &mfile{data: append([]byte(nil), d...), synced: append([]byte(nil), d...)}
	}
	cnt := 0
	for _, o := range ops {
		if o.Kind == "marker" {
			continue
		}
		if cnt == n {
			// the (n+1)-th mutating operation is in flight: optionally a torn write
			if torn > 0 && o.Kind == "write" {
				if f := st.byID[o.File]; f != nil {
					k := torn
					if k > len(o.Data) {
						k = len(o.Data)
					}
					f.data = append(f.data, o.Data[:k]...)
				}
			}
			break
		}
		cnt++
		switch o.Kind {
		case "create":
			f := &mfile{}
			st.byPath[o.Path] = f
			st.byID[o.File] = f
		case "write":
			if f := st.byID[o.File]; f != nil {
				f.data = append(f.data, o.Data...)
			}
		case "sync":
			if f := st.byID[o.File]; f != nil {
				f.synced = append([]byte(nil), f.data...)
			}
		case "rename":
			if f, ok := st.byPath[o.Path]; ok {
				st.byPath[o.To] = f
				delete(st.byPath, o.Path)
			}
		case "remove":
			delete(st.byPath, o.Path)
		}
	}
	return st
}

// Materialise writes the crash state after the first n mutating operations
// into dir. torn>0: additionally the first torn bytes of the in-flight write.
// unsynced: every file is cut back to its content at its last Sync.
func Materialise(dir string, initial map[string][]byte, ops []Op, n int, torn int, unsynced bool) (map[string][]byte, error) {
	st := replay(initial, ops, n, torn)
	out := map[string][]byte{}
	if err := os.MkdirAll(dir, 0o755); err != nil {
		return nil, err
	}
	for p, f := range st.byPath {
		d := f.data
		if unsynced {
			d = f.synced
		}
		out[p] = d
		if err := os.WriteFile(filepath.Join(dir, p), d, 0o644); err != nil {
			return nil, err
		}
	}
	return out, nil
}

// UnsyncedFiles lists the files that hold data not yet covered by a Sync after
// the first n mutating operations.
func UnsyncedFiles(initial map[string][]byte, ops []Op, n int) []string {
	st := replay(initial, ops, n, 0)
	var out []string
	for p, f := range st.byPath {
		if string(f.data) != string(f.synced) {
			out = append(out, p)
		}
	}
	sort.Strings(out)
	return out
}

// MaterialiseDropping is Materialise where exactly the files in drop lose their
// un-synced data (every subset of the un-synced files is a possible crash state).
func MaterialiseDropping(dir string, initial map[string][]byte, ops []Op, n int, drop map[string]bool) (map[string][]byte, error) {
	st := replay(initial, ops, n, 0)
	out := map[string][]byte{}
	if err := os.MkdirAll(dir, 0o755); err != nil {
		return nil, err
	}
	for p, f := range st.byPath {
		d := f.data
		if drop[p] {
			d = f.synced
		}
		out[p] = d
		if err := os.WriteFile(filepath.Join(dir, p), d, 0o644); err != nil {
			return nil, err
		}
	}
	return out, nil
}

// WriteLen returns the length of the n-th (0-based) mutating operation if it is
// a write, else 0 (for choosing torn-write cut points).
func WriteLen(ops []Op, n int) int {
	cnt := 0
	for _, o := range ops {
		if o.Kind == "marker" {
			continue
		}
		if cnt == n {
			if o.Kind == "write" {
				return len(o.Data)
			}
			return 0
		}
		cnt++
	}
	return 0
}

// MarkersBefore returns the markers logged before the n-th mutating operation.
func MarkersBefore(ops []Op, n int) []string {
	var ms []string
	cnt := 0
	for _, o := range ops {
		if o.Kind == "marker" {
			ms = append(ms, o.Note)
			continue
		}
		if cnt == n {
			break
		}
		cnt++
	}
	return ms
}

// Snapshot reads a directory into a map (for initial states of recursive crash runs).
func Snapshot(dir string) map[string][]byte {
	out := map[string][]byte{}
	es, _ := os.ReadDir(dir)
	for _, e := range es {
		if e.IsDir() {
			continue
		}
		b, err := os.ReadFile(filepath.Join(dir, e.Name()))
		if err == nil {
			out[e.Name()] = b
		}
	}
	return out
}

// Describe renders the n-th mutating operation.
func Describe(ops []Op, n int) string {
	cnt := 0
	for _, o := range ops {
		if o.Kind == "marker" {
			continue
		}
		if cnt == n {
			s := o.Kind + " " + o.Path
			if o.To != "" {
				s += " -> " + o.To
			}
			return s
		}
		cnt++
	}
	return "end"
}

// Names lists the files of a state map in sorted order.
func Names(m map[string][]byte) []string {
	var ns []string
	for k := range m {
		ns = append(ns, k)
	}
	sort.Strings(ns)
	return ns
}
