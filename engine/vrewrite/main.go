// vrewrite produces scheduler-controlled copies of selected source files of
// one maddy package: every synchronisation construct (sync, sync/atomic,
// channels, select, go statements, timers, context deadlines; optionally map
// iteration order and the os package) is redirected to
// github.com/foxcpp/maddy/internal/verif/vsched (and .../vos). The copies are
// generated from the *current* working tree and used through `go build
// -overlay`; a construct it does not understand is a hard error.
package main

import (
	"bytes"
	"flag"
	"fmt"
	"go/ast"
	"go/format"
	"go/token"
	"go/types"
	"os"
	"path/filepath"
	"strings"

	"golang.org/x/tools/go/ast/astutil"
	"golang.org/x/tools/go/packages"
)

const vschedPath = "github.com/foxcpp/maddy/internal/verif/vsched"
const vosPath = "github.com/foxcpp/maddy/internal/verif/vos"

var (
	repo  = flag.String("repo", "/repo", "repository root")
	out   = flag.String("out", "", "output directory")
	pkgP  = flag.String("pkg", "", "package pattern relative to repo (./internal/...)")
	mode  = flag.String("mode", "sync", "comma list: sync, maps, os")
	modes = map[string]bool{}
)

func die(f string, a ...any) {
	fmt.Fprintf(os.Stderr, "vrewrite: "+f+"\n", a...)
	os.Exit(2)
}

type rw struct {
	fset   *token.FileSet
	info   *types.Info
	pkg    *types.Package
	file   *ast.File
	tmp    int
	usedVS bool
	usedOS bool
	noted  map[*ast.AssignStmt]bool
}

func (r *rw) fresh(p string) string { r.tmp++; return fmt.Sprintf("_vs%s%d", p, r.tmp) }

func (r *rw) vs(name string) ast.Expr {
	r.usedVS = true
	return &ast.SelectorExpr{X: ast.NewIdent("vsched"), Sel: ast.NewIdent(name)}
}

func (r *rw) pos(n ast.Node) string { return r.fset.Position(n.Pos()).String() }

func (r *rw) isChan(e ast.Expr) bool {
	t := r.info.TypeOf(e)
	if t == nil {
		return false
	}
	_, ok := t.Underlying().(*types.Chan)
	return ok
}

func (r *rw) isMap(e ast.Expr) bool {
	t := r.info.TypeOf(e)
	if t == nil {
		return false
	}
	_, ok := t.Underlying().(*types.Map)
	return ok
}

// isRealChan: a channel produced by a call into another package (ctx.Done()).
func (r *rw) isRealChan(e ast.Expr) bool {
	e = ast.Unparen(e)
	c, ok := e.(*ast.CallExpr)
	if !ok {
		return false
	}
	var id *ast.Ident
	switch f := c.Fun.(type) {
	case *ast.SelectorExpr:
		id = f.Sel
	case *ast.Ident:
		id = f
	default:
		return false
	}
	obj := r.info.Uses[id]
	if obj == nil || obj.Pkg() == nil {
		return false
	}
	return obj.Pkg() != r.pkg && r.isChan(e)
}

func (r *rw) isBuiltin(c *ast.CallExpr, name string) bool {
	id, ok := c.Fun.(*ast.Ident)
	if !ok || id.Name != name {
		return false
	}
	_, ok = r.info.Uses[id].(*types.Builtin)
	return ok
}

func (r *rw) pkgOf(e ast.Expr) string {
	id, ok := e.(*ast.Ident)
	if !ok {
		return ""
	}
	if pn, ok := r.info.Uses[id].(*types.PkgName); ok {
		return pn.Imported().Path()
	}
	return ""
}

func call(fun ast.Expr, args ...ast.Expr) *ast.CallExpr { return &ast.CallExpr{Fun: fun, Args: args} }
func sel(x ast.Expr, name string) ast.Expr              { return &ast.SelectorExpr{X: x, Sel: ast.NewIdent(name)} }
func nilx() ast.Expr                                    { return ast.NewIdent("nil") }

var timeNames = map[string]bool{"Now": true, "Since": true, "Until": true, "NewTimer": true, "NewTicker": true, "After": true, "AfterFunc": true, "Sleep": true, "Timer": true, "Ticker": true}
var ctxNames = map[string]bool{"WithTimeout": true, "WithDeadline": true, "WithCancel": true}
var syncNames = map[string]bool{"Mutex": true, "RWMutex": true, "WaitGroup": true, "Once": true}

// recvExpr builds the replacement of `<-x` (two = comma-ok form).
func (r *rw) recvExpr(x ast.Expr, two bool) ast.Expr {
	if r.isRealChan(x) {
		if two {
			die("%s: comma-ok receive from a real channel is not supported", r.pos(x))
		}
		return call(r.vs("RecvReal"), x)
	}
	if two {
		return call(sel(x, "Recv2"))
	}
	return call(sel(x, "Recv"))
}

func (r *rw) rewriteSelect(s *ast.SelectStmt, label *ast.Ident) ast.Stmt {
	var pre []ast.Stmt
	var cases []ast.Expr
	hasDef := false
	sw := &ast.SwitchStmt{Body: &ast.BlockStmt{}}
	idx := 0
	for _, c := range s.Body.List {
		cc := c.(*ast.CommClause)
		if cc.Comm == nil {
			hasDef = true
			sw.Body.List = append(sw.Body.List, &ast.CaseClause{List: nil, Body: cc.Body})
			continue
		}
		var body []ast.Stmt
		switch cm := cc.Comm.(type) {
		case *ast.SendStmt:
			cases = append(cases, call(r.vs("SendCase"), cm.Chan, cm.Value))
		case *ast.ExprStmt:
			u, ok := ast.Unparen(cm.X).(*ast.UnaryExpr)
			if !ok || u.Op != token.ARROW {
				die("%s: unsupported select case", r.pos(cm))
			}
			if r.isRealChan(u.X) {
				cases = append(cases, call(r.vs("RecvRealCase"), u.X))
			} else {
				cases = append(cases, call(r.vs("RecvCase"), u.X, nilx(), nilx()))
			}
		case *ast.AssignStmt:
			if len(cm.Rhs) != 1 {
				die("%s: unsupported select case", r.pos(cm))
			}
			u, ok := ast.Unparen(cm.Rhs[0]).(*ast.UnaryExpr)
			if !ok || u.Op != token.ARROW {
				die("%s: unsupported select case", r.pos(cm))
			}
			if r.isRealChan(u.X) {
				die("%s: value receive from a real channel in select", r.pos(cm))
			}
			vn := r.fresh("v")
			pre = append(pre, &ast.AssignStmt{Lhs: []ast.Expr{ast.NewIdent(vn)}, Tok: token.DEFINE, Rhs: []ast.Expr{call(r.vs("ZeroOf"), u.X)}})
			pre = append(pre, &ast.AssignStmt{Lhs: []ast.Expr{ast.NewIdent("_")}, Tok: token.ASSIGN, Rhs: []ast.Expr{ast.NewIdent(vn)}})
			okArg := nilx()
			var okn string
			if len(cm.Lhs) == 2 {
				okn = r.fresh("ok")
				pre = append(pre, &ast.DeclStmt{Decl: &ast.GenDecl{Tok: token.VAR, Specs: []ast.Spec{&ast.ValueSpec{Names: []*ast.Ident{ast.NewIdent(okn)}, Type: ast.NewIdent("bool")}}}})
				pre = append(pre, &ast.AssignStmt{Lhs: []ast.Expr{ast.NewIdent("_")}, Tok: token.ASSIGN, Rhs: []ast.Expr{ast.NewIdent(okn)}})
				okArg = &ast.UnaryExpr{Op: token.AND, X: ast.NewIdent(okn)}
			}
			cases = append(cases, call(r.vs("RecvCase"), u.X, &ast.UnaryExpr{Op: token.AND, X: ast.NewIdent(vn)}, okArg))
			rhs := []ast.Expr{ast.NewIdent(vn)}
			if okn != "" {
				rhs = append(rhs, ast.NewIdent(okn))
			}
			allBlank := true
			for _, l := range cm.Lhs {
				if id, ok := l.(*ast.Ident); !ok || id.Name != "_" {
					allBlank = false
				}
			}
			if !allBlank {
				body = append(body, &ast.AssignStmt{Lhs: cm.Lhs, Tok: cm.Tok, Rhs: rhs})
			}
		default:
			die("%s: unsupported select case", r.pos(cc))
		}
		body = append(body, cc.Body...)
		sw.Body.List = append(sw.Body.List, &ast.CaseClause{List: []ast.Expr{&ast.BasicLit{Kind: token.INT, Value: fmt.Sprint(idx)}}, Body: body})
		idx++
	}
	hd := "false"
	if hasDef {
		hd = "true"
	} else {
		// keeps a terminating select a terminating statement
		sw.Body.List = append(sw.Body.List, &ast.CaseClause{List: nil, Body: []ast.Stmt{&ast.ExprStmt{X: call(ast.NewIdent("panic"), &ast.BasicLit{Kind: token.STRING, Value: `"vsched: select returned no case"`})}}})
	}
	sw.Tag = call(r.vs("Select"), append([]ast.Expr{ast.NewIdent(hd)}, cases...)...)
	var swStmt ast.Stmt = sw
	if label != nil {
		swStmt = &ast.LabeledStmt{Label: label, Stmt: sw}
	}
	if len(pre) == 0 && label == nil {
		return sw
	}
	return &ast.BlockStmt{List: append(pre, swStmt)}
}

func (r *rw) rewriteGo(g *ast.GoStmt) ast.Stmt {
	c := g.Call
	var pre []ast.Stmt
	args := make([]ast.Expr, len(c.Args))
	for i, a := range c.Args {
		tv, ok := r.info.Types[a]
		if (ok && tv.Value != nil) || isNilIdent(a) {
			args[i] = a
			continue
		}
		if _, isLit := a.(*ast.FuncLit); isLit {
			args[i] = a
			continue
		}
		n := r.fresh("a")
		pre = append(pre, &ast.AssignStmt{Lhs: []ast.Expr{ast.NewIdent(n)}, Tok: token.DEFINE, Rhs: []ast.Expr{a}})
		args[i] = ast.NewIdent(n)
	}
	var bodyCall ast.Expr
	if fl, ok := c.Fun.(*ast.FuncLit); ok && len(c.Args) == 0 {
		goCall := &ast.ExprStmt{X: call(r.vs("Go"), fl)}
		return goCall
	}
	nc := &ast.CallExpr{Fun: c.Fun, Args: args, Ellipsis: c.Ellipsis}
	bodyCall = nc
	fl := &ast.FuncLit{Type: &ast.FuncType{Params: &ast.FieldList{}}, Body: &ast.BlockStmt{List: []ast.Stmt{&ast.ExprStmt{X: bodyCall}}}}
	goCall := &ast.ExprStmt{X: call(r.vs("Go"), fl)}
	if len(pre) == 0 {
		return goCall
	}
	return &ast.BlockStmt{List: append(pre, goCall)}
}

func isCaseBody(n ast.Node) bool {
	switch n.(type) {
	case *ast.CaseClause, *ast.CommClause:
		return true
	}
	return false
}

func isNilIdent(e ast.Expr) bool {
	id, ok := e.(*ast.Ident)
	return ok && id.Name == "nil"
}

func (r *rw) rewriteRange(rs *ast.RangeStmt) ast.Stmt {
	if r.isChan(rs.X) {
		if r.isRealChan(rs.X) {
			die("%s: range over a real channel", r.pos(rs))
		}
		if rs.Value != nil {
			die("%s: range over channel with two variables", r.pos(rs))
		}
		okn := r.fresh("ok")
		var lhs ast.Expr = ast.NewIdent("_")
		tok := token.DEFINE
		if rs.Key != nil {
			lhs = rs.Key
			if rs.Tok == token.ASSIGN {
				// declare ok separately
				pre := &ast.DeclStmt{Decl: &ast.GenDecl{Tok: token.VAR, Specs: []ast.Spec{&ast.ValueSpec{Names: []*ast.Ident{ast.NewIdent(okn)}, Type: ast.NewIdent("bool")}}}}
				recv := &ast.AssignStmt{Lhs: []ast.Expr{lhs, ast.NewIdent(okn)}, Tok: token.ASSIGN, Rhs: []ast.Expr{call(sel(rs.X, "Recv2"))}}
				brk := &ast.IfStmt{Cond: &ast.UnaryExpr{Op: token.NOT, X: ast.NewIdent(okn)}, Body: &ast.BlockStmt{List: []ast.Stmt{&ast.BranchStmt{Tok: token.BREAK}}}}
				return &ast.ForStmt{Body: &ast.BlockStmt{List: append([]ast.Stmt{pre, recv, brk}, rs.Body.List...)}}
			}
		}
		recv := &ast.AssignStmt{Lhs: []ast.Expr{lhs, ast.NewIdent(okn)}, Tok: tok, Rhs: []ast.Expr{call(sel(rs.X, "Recv2"))}}
		brk := &ast.IfStmt{Cond: &ast.UnaryExpr{Op: token.NOT, X: ast.NewIdent(okn)}, Body: &ast.BlockStmt{List: []ast.Stmt{&ast.BranchStmt{Tok: token.BREAK}}}}
		return &ast.ForStmt{Body: &ast.BlockStmt{List: append([]ast.Stmt{recv, brk}, rs.Body.List...)}}
	}
	if modes["maps"] && r.isMap(rs.X) {
		if rs.Tok == token.ASSIGN {
			die("%s: map range with '=' is not supported", r.pos(rs))
		}
		kn := r.fresh("k")
		var key ast.Expr = ast.NewIdent(kn)
		if id, ok := rs.Key.(*ast.Ident); ok && id.Name != "_" {
			key = id
		}
		okn := r.fresh("ok")
		var val ast.Expr = ast.NewIdent("_")
		if id, ok := rs.Value.(*ast.Ident); ok && id.Name != "_" {
			val = id
		}
		get := &ast.AssignStmt{Lhs: []ast.Expr{val, ast.NewIdent(okn)}, Tok: token.DEFINE, Rhs: []ast.Expr{&ast.IndexExpr{X: rs.X, Index: key}}}
		cont := &ast.IfStmt{Cond: &ast.UnaryExpr{Op: token.NOT, X: ast.NewIdent(okn)}, Body: &ast.BlockStmt{List: []ast.Stmt{&ast.BranchStmt{Tok: token.CONTINUE}}}}
		return &ast.RangeStmt{Key: ast.NewIdent("_"), Value: key, Tok: token.DEFINE, X: call(r.vs("SortedKeys"), rs.X),
			Body: &ast.BlockStmt{List: append([]ast.Stmt{get, cont}, rs.Body.List...)}}
	}
	return rs
}

func (r *rw) apply(f *ast.File) {
	r.file = f
	r.walk(f)
	// pass 2: remaining channel types
	astutil.Apply(f, nil, func(c *astutil.Cursor) bool {
		if ct, ok := c.Node().(*ast.ChanType); ok {
			c.Replace(&ast.StarExpr{X: &ast.IndexExpr{X: r.vs("Chan"), Index: ct.Value}})
		}
		return true
	})
}

// walk rewrites in pre-order: a construct is replaced by its model form, the
// replacement is walked recursively (it embeds the original sub-trees), and
// the traversal does not descend into the replaced node again.
func (r *rw) walk(root ast.Node) {
	astutil.Apply(root, func(c *astutil.Cursor) bool {
		n := c.Node()
		if n == root {
			if _, isFile := n.(*ast.File); !isFile {
				// the root of a replacement is already in model form
				if _, isAssign := n.(*ast.AssignStmt); !isAssign {
					return true
				}
			}
		}
		var repl ast.Node
		switch n := n.(type) {
		case *ast.LabeledStmt:
			if s, ok := n.Stmt.(*ast.SelectStmt); ok {
				repl = r.rewriteSelect(s, n.Label)
			}
		case *ast.SelectStmt:
			repl = r.rewriteSelect(n, nil)
		case *ast.GoStmt:
			repl = r.rewriteGo(n)
		case *ast.RangeStmt:
			if x := r.rewriteRange(n); x != ast.Stmt(n) {
				repl = x
			}
		case *ast.SendStmt:
			if r.isRealChan(n.Chan) {
				die("%s: send on a real channel", r.pos(n))
			}
			repl = &ast.ExprStmt{X: call(sel(n.Chan, "Send"), n.Value)}
		case *ast.AssignStmt:
			if len(n.Rhs) == 1 {
				if u, ok := ast.Unparen(n.Rhs[0]).(*ast.UnaryExpr); ok && u.Op == token.ARROW {
					n.Rhs[0] = r.recvExpr(u.X, len(n.Lhs) == 2)
				}
			}
			// m[k] = v  =>  vsched.NoteKey(m, k); m[k] = v   (insertion order is owned)
			if modes["maps"] && len(n.Lhs) == 1 && n.Tok == token.ASSIGN && !r.noted[n] {
				if ix, ok := n.Lhs[0].(*ast.IndexExpr); ok && r.isMap(ix.X) {
					if _, inBlock := c.Parent().(*ast.BlockStmt); inBlock || isCaseBody(c.Parent()) {
						r.noted[n] = true
						c.InsertBefore(&ast.ExprStmt{X: call(r.vs("NoteKey"), ix.X, ix.Index)})
					}
				}
			}
		case *ast.ValueSpec:
			if len(n.Values) == 1 {
				if u, ok := ast.Unparen(n.Values[0]).(*ast.UnaryExpr); ok && u.Op == token.ARROW {
					n.Values[0] = r.recvExpr(u.X, len(n.Names) == 2)
				}
			}
		case *ast.UnaryExpr:
			if n.Op == token.ARROW {
				repl = r.recvExpr(n.X, false)
			}
		case *ast.CallExpr:
			if r.isBuiltin(n, "close") && len(n.Args) == 1 {
				repl = call(sel(n.Args[0], "Close"))
			} else if (r.isBuiltin(n, "len") || r.isBuiltin(n, "cap")) && len(n.Args) == 1 && r.isChan(n.Args[0]) {
				m := "Len"
				if n.Fun.(*ast.Ident).Name == "cap" {
					m = "Cap"
				}
				repl = call(sel(n.Args[0], m))
			} else if r.isBuiltin(n, "make") && len(n.Args) >= 1 {
				if ct, ok := n.Args[0].(*ast.ChanType); ok {
					fun := &ast.IndexExpr{X: r.vs("MakeChan"), Index: ct.Value}
					repl = call(fun, n.Args[1:]...)
				}
			}
		case *ast.SelectorExpr:
			switch r.pkgOf(n.X) {
			case "sync":
				if !syncNames[n.Sel.Name] {
					die("%s: sync.%s is not modelled", r.pos(n), n.Sel.Name)
				}
				repl = r.vs(n.Sel.Name)
			case "sync/atomic":
				repl = r.vs(n.Sel.Name)
			case "time":
				if timeNames[n.Sel.Name] {
					repl = r.vs(n.Sel.Name)
				}
			case "context":
				if ctxNames[n.Sel.Name] {
					repl = r.vs(n.Sel.Name)
				}
			case "os":
				if modes["os"] {
					r.usedOS = true
					repl = &ast.SelectorExpr{X: ast.NewIdent("vos"), Sel: n.Sel}
				}
			}
		}
		if repl != nil {
			r.walk(repl)
			c.Replace(repl)
			return false
		}
		return true
	}, nil)
}

func main() {
	flag.Parse()
	for _, m := range strings.Split(*mode, ",") {
		modes[strings.TrimSpace(m)] = true
	}
	if *out == "" || *pkgP == "" || flag.NArg() == 0 {
		die("usage: vrewrite -repo R -out D -pkg ./p [-mode sync,maps,os] file.go ...")
	}
	want := map[string]bool{}
	for _, f := range flag.Args() {
		want[f] = true
	}
	cfg := &packages.Config{Mode: packages.NeedName | packages.NeedFiles | packages.NeedSyntax | packages.NeedTypes | packages.NeedTypesInfo | packages.NeedImports | packages.NeedDeps, Dir: *repo, Env: os.Environ()}
	pkgs, err := packages.Load(cfg, *pkgP)
	if err != nil {
		die("load: %v", err)
	}
	if len(pkgs) != 1 {
		die("expected one package, got %d", len(pkgs))
	}
	p := pkgs[0]
	if len(p.Errors) > 0 {
		for _, e := range p.Errors {
			fmt.Fprintln(os.Stderr, e)
		}
		die("package %s has errors", p.PkgPath)
	}
	os.MkdirAll(*out, 0o755)
	done := 0
	for i, f := range p.Syntax {
		_ = i
		path := p.Fset.Position(f.Pos()).Filename
		if !want[filepath.Base(path)] {
			continue
		}
		r := &rw{fset: p.Fset, info: p.TypesInfo, pkg: p.Types, noted: map[*ast.AssignStmt]bool{}}
		r.apply(f)
		if r.usedVS {
			astutil.AddImport(p.Fset, f, vschedPath)
		}
		if r.usedOS {
			astutil.AddImport(p.Fset, f, vosPath)
		}
		// drop imports that became unused
		used := map[string]bool{}
		ast.Inspect(f, func(n ast.Node) bool {
			if s, ok := n.(*ast.SelectorExpr); ok {
				if id, ok := s.X.(*ast.Ident); ok {
					used[id.Name] = true
				}
			}
			return true
		})
		imps := append([]*ast.ImportSpec{}, f.Imports...)
		for _, imp := range imps {
			path := strings.Trim(imp.Path.Value, `"`)
			name := filepath.Base(path)
			if pn, ok := p.TypesInfo.Implicits[imp].(*types.PkgName); ok {
				name = pn.Name()
			}
			if imp.Name != nil {
				name = imp.Name.Name
			}
			if name == "_" || name == "." {
				continue
			}
			if !used[name] {
				if imp.Name != nil {
					astutil.DeleteNamedImport(p.Fset, f, imp.Name.Name, path)
				} else {
					astutil.DeleteImport(p.Fset, f, path)
				}
			}
		}
		var buf bytes.Buffer
		if err := format.Node(&buf, p.Fset, f); err != nil {
			die("format %s: %v", path, err)
		}
		rel, _ := filepath.Rel(*repo, path)
		dst := filepath.Join(*out, strings.ReplaceAll(rel, string(filepath.Separator), "__"))
		if err := os.WriteFile(dst, buf.Bytes(), 0o644); err != nil {
			die("write: %v", err)
		}
		fmt.Printf("OVERLAY %s %s\n", path, dst)
		done++
	}
	if done != len(want) {
		die("only %d of %d requested files found in %s", done, len(want), p.PkgPath)
	}
}
