// Package vsched is a cooperative, fully controlled scheduler for Go code whose
// synchronisation operations have been rewritten (by /verif/engine/vrewrite) to
// call into it, plus a stateless depth-first explorer that enumerates every
// schedule up to a pre-emption bound (CHESS-style iterative context bounding).
//
// Exactly one controlled thread runs at a time. Before every visible operation
// (lock, channel operation, select, atomic, WaitGroup.Wait, spawn start) the
// thread publishes the pending operation with an enabledness predicate and
// parks; the scheduler loop picks the next thread according to the choice
// sequence being explored. Timers, tickers and context deadlines live on a
// virtual clock advanced by an environment pseudo-thread.
package vsched

import (
	"fmt"
	"reflect"
	"runtime"
	"sort"
	"strings"
	"sync"
	"time"
)

type opKind int

const (
	opStart opKind = iota
	opLock
	opRLock
	opWait
	opOnce
	opSend
	opRecv
	opSelect
	opAtomic
	opRecvReal
	opYield
	opResume // completed by a rendezvous partner; only needs to be resumed
)

var opNames = [...]string{"start", "lock", "rlock", "wg.wait", "once", "send", "recv", "select", "atomic", "recv-real", "yield", "resume"}

type selCase struct {
	ch     chanI
	send   bool
	real   <-chan struct{}
	isReal bool
	// send: value stored by caller in sendFn; recv: value delivered through recvFn
	sendVal any
	recvFn  func(v any, ok bool)
}

type op struct {
	kind      opKind
	obj       any
	enabled   func() bool
	cases     []selCase // for send/recv (1 case) and select
	hasDef    bool
	waiting   bool // second phase: registered as a waiter on its channel(s)
	completed bool // a partner finished this operation for us
	chosen    int  // case index chosen by the partner
}

type thread struct {
	id      int
	name    string
	resume  chan struct{}
	pending *op
	done    bool
	started bool
	panicV  any
	panicS  string
}

// Point describes one scheduling decision of an execution.
type Point struct {
	N          int  // number of alternatives
	Chosen     int  // index taken
	CurEnabled bool // the previously running thread was alternative 0 (switching away = pre-emption)
	Free       bool // data choice (rendezvous partner, select case, harness choice): never a pre-emption
	EnvIdx     int  // index of the environment alternative, -1 if none
	ProgN      int  // number of program-thread alternatives
	Desc       string
}

type timerEntry struct {
	deadline time.Duration
	active   bool
	seq      int
	period   time.Duration
	fire     func()
	what     string
}

// Outcome of one execution.
type Outcome struct {
	Points    []Point
	Deadlock  bool
	Blocked   []string // names/ops of threads blocked at the end
	Panics    []string // panics that escaped a controlled thread
	PanicVals []any
	StepCap   bool
	Diverged  string // non-empty: replay of the prefix met a different choice structure
	Steps     int
	Switches  int
	Trace     []string
	Threads   int
	EndedAt   time.Duration
	// Note: observation class set by the scenario's Check (outcome histogram of the evidence)
	Note string
}

// Sched is the state of one execution.
type Sched struct {
	threads  []*thread
	cur      *thread
	yield    chan struct{}
	now      time.Duration
	timers   []*timerEntry
	timerSeq int
	prefix   []int
	pos      int
	out      *Outcome
	aborting bool
	maxSteps int
	trace    bool
	objIDs   map[any]int
	root     *thread
	last     *thread
	// KeepEnv: keep firing timers after the root thread finished while no
	// program thread is enabled (default false: the execution ends there).
	KeepEnv bool
	// PermuteMaps: iteration order of 2-3 element maps is an explorer choice.
	PermuteMaps bool
	maps        map[uintptr]*mapOrder
}

// S is the scheduler of the execution in progress (nil outside executions).
var S *Sched

var Epoch = time.Date(2030, 1, 1, 0, 0, 0, 0, time.UTC)

type abortSentinel struct{}

func (s *Sched) objID(o any) int {
	if o == nil {
		return 0
	}
	if id, ok := s.objIDs[o]; ok {
		return id
	}
	id := len(s.objIDs) + 1
	s.objIDs[o] = id
	return id
}

// Options of one execution.
type Options struct {
	MaxSteps    int
	Trace       bool
	KeepEnv     bool
	StartAt     time.Duration // initial offset of the virtual clock from Epoch
	PermuteMaps bool
}

// Run executes body as the root controlled thread, following the choice prefix
// and taking alternative 0 afterwards.
func Run(prefix []int, opt Options, body func()) *Outcome {
	if S != nil {
		panic("vsched: nested Run")
	}
	s := &Sched{yield: make(chan struct{}), prefix: prefix, out: &Outcome{}, maxSteps: opt.MaxSteps, trace: opt.Trace, objIDs: map[any]int{}, KeepEnv: opt.KeepEnv, now: opt.StartAt, PermuteMaps: opt.PermuteMaps}
	if s.maxSteps == 0 {
		s.maxSteps = 20000
	}
	S = s
	defer func() { S = nil }()
	s.root = s.spawn("root", body)
	s.loop()
	s.teardown()
	s.out.Threads = len(s.threads)
	s.out.EndedAt = s.now
	return s.out
}

func (s *Sched) spawn(name string, f func()) *thread {
	t := &thread{id: len(s.threads), name: name, resume: make(chan struct{})}
	t.pending = &op{kind: opStart, enabled: func() bool { return true }}
	s.threads = append(s.threads, t)
	go func() {
		<-t.resume
		defer func() {
			if p := recover(); p != nil {
				if _, ok := p.(abortSentinel); !ok {
					t.panicV = p
					buf := make([]byte, 16384)
					buf = buf[:runtime.Stack(buf, false)]
					t.panicS = fmt.Sprintf("%v\n%s", p, buf)
				}
			}
			t.done = true
			t.pending = nil
			s.yield <- struct{}{}
		}()
		if s.aborting {
			return
		}
		t.started = true
		t.pending = nil
		f()
	}()
	return t
}

func callerName() string {
	pcs := make([]uintptr, 8)
	n := runtime.Callers(3, pcs)
	fr := runtime.CallersFrames(pcs[:n])
	for {
		f, more := fr.Next()
		if !strings.Contains(f.Function, "/vsched.") {
			fn := f.Function
			if i := strings.LastIndex(fn, "/"); i >= 0 {
				fn = fn[i+1:]
			}
			return fn
		}
		if !more {
			return "?"
		}
	}
}

// Go starts a new controlled thread (rewritten `go` statement).
func Go(f func()) {
	s := S
	if s == nil {
		go f()
		return
	}
	if s.aborting {
		return
	}
	s.spawn(callerName(), f)
}

// GoNamed starts a controlled thread with an explicit name (harness use).
func GoNamed(name string, f func()) {
	S.spawn(name, f)
}

// point parks the running thread on a pending operation until the scheduler
// picks it again.
func (s *Sched) point(o *op) {
	if s.aborting {
		if o.kind == opLock || o.kind == opAtomic || o.kind == opYield {
			return
		}
		runtime.Goexit()
	}
	t := s.cur
	t.pending = o
	s.yield <- struct{}{}
	<-t.resume
	if s.aborting {
		runtime.Goexit()
	}
	t.pending = nil
}

func (o *op) isEnabled() bool {
	if o.completed {
		return true
	}
	return o.enabled()
}

// choose takes one explorer decision among n alternatives.
func (s *Sched) choose(n int, curEnabled, free bool, envIdx, progN int, desc string) int {
	c := 0
	if s.pos < len(s.prefix) {
		c = s.prefix[s.pos]
		if c >= n {
			if s.out.Diverged == "" {
				s.out.Diverged = fmt.Sprintf("choice %d at point %d out of range (n=%d, %s)", c, s.pos, n, desc)
			}
			c = 0
		}
	}
	s.pos++
	s.out.Points = append(s.out.Points, Point{N: n, Chosen: c, CurEnabled: curEnabled, Free: free, EnvIdx: envIdx, ProgN: progN, Desc: desc})
	return c
}

// Choose is a harness-visible data choice (free: never counted as pre-emption).
func Choose(n int, desc string) int {
	if n <= 1 {
		return 0
	}
	return S.choose(n, false, true, -1, n, desc)
}

func (s *Sched) describe(t *thread) string {
	if t.pending == nil {
		return fmt.Sprintf("t%d(%s):running", t.id, t.name)
	}
	o := t.pending
	k := opNames[o.kind]
	if o.completed {
		k = "resume"
	}
	return fmt.Sprintf("t%d(%s):%s#%d", t.id, t.name, k, s.objID(o.obj))
}

func (s *Sched) loop() {
	// the root thread is started by the first decision
	for {
		if s.cur != nil {
			<-s.yield
		}
		if s.cur != nil {
			s.last = s.cur
		}
		prev := s.last
		s.cur = nil
		s.out.Steps++
		// enabled program threads, canonical order: previously running first
		var en []*thread
		curEnabled := false
		if prev != nil && !prev.done && prev.pending != nil && prev.pending.isEnabled() {
			en = append(en, prev)
			curEnabled = true
		}
		for _, t := range s.threads {
			if t == prev || t.done || t.pending == nil {
				continue
			}
			if t.pending.isEnabled() {
				en = append(en, t)
			}
		}
		env := s.nextTimer()
		if len(en) == 0 {
			if s.root.done && !s.KeepEnv {
				break // quiescent after the root finished
			}
			if env == nil {
				if !s.root.done {
					s.out.Deadlock = true
				}
				break
			}
		}
		if s.out.Steps > s.maxSteps {
			s.out.StepCap = true
			break
		}
		n := len(en)
		envIdx := -1
		if env != nil {
			envIdx = n
			n++
		}
		c := 0
		if n > 1 || true {
			desc := ""
			if s.trace {
				var ds []string
				for _, t := range en {
					ds = append(ds, s.describe(t))
				}
				if env != nil {
					ds = append(ds, "env:"+env.what)
				}
				desc = strings.Join(ds, " | ")
			}
			if n > 1 {
				c = s.choose(n, curEnabled, false, envIdx, len(en), desc)
			} else if s.trace {
				s.out.Trace = append(s.out.Trace, "  only: "+desc)
			}
		}
		if c == envIdx {
			if s.trace {
				s.out.Trace = append(s.out.Trace, fmt.Sprintf("[%d] env fires %s at +%s", s.out.Steps, env.what, env.deadline))
			}
			s.fire(env)
			continue
		}
		pick := en[c]
		if pick != prev {
			s.out.Switches++
		}
		if s.trace {
			s.out.Trace = append(s.out.Trace, fmt.Sprintf("[%d] %s", s.out.Steps, s.describe(pick)))
		}
		s.cur = pick
		pick.resume <- struct{}{}
	}
	// collect the end state
	for _, t := range s.threads {
		if t.panicV != nil {
			s.out.Panics = append(s.out.Panics, fmt.Sprintf("t%d(%s): %s", t.id, t.name, t.panicS))
			s.out.PanicVals = append(s.out.PanicVals, t.panicV)
		}
		if !t.done {
			s.out.Blocked = append(s.out.Blocked, s.describe(t))
		}
	}
}

// teardown makes every parked thread unwind (runtime.Goexit: deferred calls run,
// recover() sees nothing) so that goroutines do not accumulate over executions.
func (s *Sched) teardown() {
	s.aborting = true
	for _, t := range s.threads {
		if t.done {
			continue
		}
		s.cur = t
		t.resume <- struct{}{}
		<-s.yield
	}
	s.cur = nil
}

func (s *Sched) nextTimer() *timerEntry {
	var best *timerEntry
	for _, t := range s.timers {
		if !t.active {
			continue
		}
		if best == nil || t.deadline < best.deadline || (t.deadline == best.deadline && t.seq < best.seq) {
			best = t
		}
	}
	return best
}

func (s *Sched) fire(t *timerEntry) {
	if t.deadline > s.now {
		s.now = t.deadline
	}
	if t.period > 0 {
		t.deadline += t.period
	} else {
		t.active = false
	}
	// compact the timer list now and then
	if len(s.timers) > 64 {
		var keep []*timerEntry
		for _, x := range s.timers {
			if x.active {
				keep = append(keep, x)
			}
		}
		s.timers = keep
	}
	t.fire()
}

func (s *Sched) addTimer(d time.Duration, period time.Duration, what string, fire func()) *timerEntry {
	if d < 0 {
		d = 0
	}
	s.timerSeq++
	t := &timerEntry{deadline: s.now + d, active: true, seq: s.timerSeq, period: period, fire: fire, what: what}
	s.timers = append(s.timers, t)
	return t
}

// Yield is an explicit scheduling point (harness use, spin loops).
func Yield() {
	if S == nil {
		runtime.Gosched()
		return
	}
	S.point(&op{kind: opYield, enabled: func() bool { return true }})
}

// Advance moves the virtual clock forward without firing anything that is not
// due (harness use). Timers that became due fire through the environment.
func Advance(d time.Duration) {
	S.now += d
}

// ThreadID returns the id of the running controlled thread.
func ThreadID() int {
	if S == nil || S.cur == nil {
		return -1
	}
	return S.cur.id
}

// ---- owned map iteration order ------------------------------------------------------
//
// Rewritten `for k, v := range m` loops iterate over Keys(m): the keys in
// insertion order (insertions in rewritten files are announced with NoteKey;
// unknown keys follow in printable order). When the map has 2 or 3 keys the
// order is additionally an explorer choice (free), so that every iteration
// order Go may produce is covered instead of one being sampled.

type mapOrder struct {
	keys []any
}

func mapID(m any) uintptr { return reflect.ValueOf(m).Pointer() }

// Free-running mode (no scheduler): files rewritten with -mode maps only.
// Insertion order is tracked in a process-wide table that the harness resets
// per run; FreePerm selects the permutation applied to every 2-3 element map
// iteration of the run (the harness enumerates it).
var (
	freeMu   sync.Mutex
	freeMaps = map[uintptr]*mapOrder{}
	FreePerm int
	// FreeAlt: successive iterations over 2-3 element maps use successive
	// permutations (FreePerm, FreePerm+1, ...) instead of one permutation for
	// the whole run: two loops over one map then see different orders, as they
	// may with Go's randomised iteration.
	FreeAlt   bool
	freeCalls int
)

// ResetFreeMaps forgets all recorded insertion orders (start of a free-running run).
func ResetFreeMaps() {
	freeMu.Lock()
	freeMaps = map[uintptr]*mapOrder{}
	freeCalls = 0
	freeMu.Unlock()
}

// NoteKey records the insertion of k into m (rewritten `m[k] = v`).
func NoteKey[K comparable, V any](m map[K]V, k K) {
	if m == nil {
		return
	}
	if _, exists := m[k]; exists {
		return
	}
	s := S
	if s == nil {
		freeMu.Lock()
		id := mapID(m)
		mo := freeMaps[id]
		if mo == nil {
			mo = &mapOrder{}
			freeMaps[id] = mo
		}
		mo.keys = append(mo.keys, k)
		freeMu.Unlock()
		return
	}
	if s.maps == nil {
		s.maps = map[uintptr]*mapOrder{}
	}
	id := mapID(m)
	mo := s.maps[id]
	if mo == nil {
		mo = &mapOrder{}
		s.maps[id] = mo
	}
	mo.keys = append(mo.keys, k)
}

// Keys returns the keys of m in an owned order.
func Keys[K comparable, V any](m map[K]V) []K {
	ks := make([]K, 0, len(m))
	seen := map[K]bool{}
	var recorded []any
	if s := S; s != nil {
		if s.maps != nil && m != nil {
			if mo := s.maps[mapID(m)]; mo != nil {
				recorded = mo.keys
			}
		}
	} else if m != nil {
		freeMu.Lock()
		if mo := freeMaps[mapID(m)]; mo != nil {
			recorded = append([]any{}, mo.keys...)
		}
		freeMu.Unlock()
	}
	for _, k := range recorded {
		kk, isK := k.(K)
		if !isK {
			continue
		}
		if _, ok := m[kk]; ok && !seen[kk] {
			seen[kk] = true
			ks = append(ks, kk)
		}
	}
	var rest []K
	for k := range m {
		if !seen[k] {
			rest = append(rest, k)
		}
	}
	sort.Slice(rest, func(i, j int) bool { return fmt.Sprint(rest[i]) < fmt.Sprint(rest[j]) })
	ks = append(ks, rest...)
	if S == nil && (FreePerm > 0 || FreeAlt) && (len(ks) == 2 || len(ks) == 3) {
		perms := [][]int{{0, 1, 2}, {1, 0, 2}, {0, 2, 1}, {2, 0, 1}, {1, 2, 0}, {2, 1, 0}}
		fp := FreePerm
		if FreeAlt {
			freeMu.Lock()
			fp += freeCalls
			freeCalls++
			freeMu.Unlock()
		}
		p := perms[fp%6]
		if len(ks) == 2 {
			p = perms[fp%2]
		}
		out := make([]K, len(ks))
		for i := range ks {
			out[i] = ks[p[i]]
		}
		return out
	}
	if S != nil && S.PermuteMaps && !S.aborting && (len(ks) == 2 || len(ks) == 3) {
		perms := [][]int{{0, 1, 2}, {1, 0, 2}, {0, 2, 1}, {2, 0, 1}, {1, 2, 0}, {2, 1, 0}}
		n := 2
		if len(ks) == 3 {
			n = 6
		}
		c := S.choose(n, false, true, -1, n, "map-order")
		out := make([]K, len(ks))
		for i := range ks {
			out[i] = ks[perms[c][i]]
		}
		return out
	}
	return ks
}

// SortedKeys is kept as an alias of Keys for rewritten code.
func SortedKeys[K comparable, V any](m map[K]V) []K { return Keys(m) }
