package vsched

import (
	"context"
	"fmt"
	"time"
)

// Now is the rewritten time.Now: the virtual clock.
func Now() time.Time {
	if S == nil {
		return time.Now()
	}
	return Epoch.Add(S.now)
}

func Since(t time.Time) time.Duration { return Now().Sub(t) }
func Until(t time.Time) time.Duration { return t.Sub(Now()) }

// Timer models time.Timer.
type Timer struct {
	C *Chan[time.Time]
	e *timerEntry
}

func NewTimer(d time.Duration) *Timer {
	t := &Timer{C: MakeChan[time.Time](1)}
	t.e = S.addTimer(d, 0, fmt.Sprintf("timer(+%s)", d), func() {
		if len(t.C.buf) < t.C.cap {
			t.C.buf = append(t.C.buf, Epoch.Add(S.now))
		}
	})
	return t
}

func (t *Timer) Stop() bool {
	was := t.e.active
	t.e.active = false
	return was
}

func (t *Timer) Reset(d time.Duration) bool {
	was := t.e.active
	if d < 0 {
		d = 0
	}
	t.e.deadline = S.now + d
	t.e.active = true
	t.e.what = fmt.Sprintf("timer(+%s)", d)
	found := false
	for _, x := range S.timers {
		if x == t.e {
			found = true
		}
	}
	if !found {
		S.timers = append(S.timers, t.e)
	}
	return was
}

func After(d time.Duration) *Chan[time.Time] { return NewTimer(d).C }

func AfterFunc(d time.Duration, f func()) *Timer {
	t := &Timer{}
	t.e = S.addTimer(d, 0, fmt.Sprintf("afterfunc(+%s)", d), func() { S.spawn("afterfunc", f) })
	return t
}

// Sleep blocks the thread until the virtual clock passed d.
func Sleep(d time.Duration) {
	if d <= 0 {
		Yield()
		return
	}
	NewTimer(d).C.Recv()
}

// Ticker models time.Ticker.
type Ticker struct {
	C *Chan[time.Time]
	e *timerEntry
}

func NewTicker(d time.Duration) *Ticker {
	if d <= 0 {
		panic("non-positive interval for NewTicker")
	}
	t := &Ticker{C: MakeChan[time.Time](1)}
	t.e = S.addTimer(d, d, fmt.Sprintf("ticker(%s)", d), func() {
		if len(t.C.buf) < t.C.cap {
			t.C.buf = append(t.C.buf, Epoch.Add(S.now))
		}
	})
	return t
}

func (t *Ticker) Stop() { t.e.active = false }

func (t *Ticker) Reset(d time.Duration) {
	t.e.period = d
	t.e.deadline = S.now + d
	t.e.active = true
}

// ---- contexts with virtual deadlines ---------------------------------------------

type vctx struct {
	context.Context
	done chan struct{}
	err  error
	e    *timerEntry
	dl   time.Time
}

func (c *vctx) Done() <-chan struct{} { return c.done }
func (c *vctx) Err() error            { return c.err }
func (c *vctx) Deadline() (time.Time, bool) {
	if c.dl.IsZero() {
		return c.Context.Deadline()
	}
	return c.dl, true
}

func (c *vctx) cancel(err error) {
	if c.err != nil {
		return
	}
	c.err = err
	close(c.done)
	if c.e != nil {
		c.e.active = false
	}
}

// WithTimeout is the rewritten context.WithTimeout: the deadline is a virtual
// timer fired by the environment.
func WithTimeout(parent context.Context, d time.Duration) (context.Context, context.CancelFunc) {
	c := &vctx{Context: parent, done: make(chan struct{}), dl: Now().Add(d)}
	c.e = S.addTimer(d, 0, fmt.Sprintf("ctx-deadline(+%s)", d), func() { c.cancel(context.DeadlineExceeded) })
	if parent.Err() != nil {
		c.cancel(parent.Err())
	}
	return c, func() { c.cancel(context.Canceled) }
}

func WithDeadline(parent context.Context, t time.Time) (context.Context, context.CancelFunc) {
	return WithTimeout(parent, t.Sub(Now()))
}

func WithCancel(parent context.Context) (context.Context, context.CancelFunc) {
	c := &vctx{Context: parent, done: make(chan struct{})}
	if parent.Err() != nil {
		c.cancel(parent.Err())
	}
	return c, func() { c.cancel(context.Canceled) }
}
