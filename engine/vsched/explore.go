package vsched

import (
	"fmt"
	"strings"
)

// Explorer enumerates every schedule of a scenario up to a pre-emption bound.
type Explorer struct {
	Bound    int
	Opt      Options
	Body     func() func(*Outcome) // builds a fresh scenario: returns the root body... see Explore
	Shard    int
	Shards   int
	MaxExecs int64 // 0 = unlimited; reaching it marks the run capped
	// Stop, when set, is polled before every execution: returning true ends the
	// exploration early (used once a new violation was reported).
	Stop    func() bool
	Stopped bool
	// FreeLimit: maximum number of non-default cost-free choices (completion
	// orders at blocking points, select cases, map orders) per execution;
	// 0 = unlimited (deviation bounding for the free choices).
	FreeLimit int

	Executions int64
	MaxPoints  int
	MaxThreads int
	Capped     bool
	Switching  int64 // executions with >= 1 context switch away from an enabled thread
	topIdx     int
}

// Scenario is one fresh instance: Root runs as the root controlled thread;
// Check is called after the execution finished with its outcome and returns
// the fingerprint and detail of a violation ("" = none).
type Scenario struct {
	Root  func()
	Check func(*Outcome) (fingerprint, detail string)
}

// Result of exploring one execution with a violation.
type Found struct {
	Fingerprint string
	Detail      string
	Choices     []int
	Preemptions int
	Trace       []string
}

func cost(p Point, alt int) int {
	if p.Free {
		return 0
	}
	if alt == p.EnvIdx {
		if p.ProgN > 0 {
			return 1
		}
		return 0
	}
	if p.CurEnabled && alt != 0 {
		return 1
	}
	return 0
}

// PreemptionsOf counts the pre-emptions of an executed choice sequence.
func PreemptionsOf(points []Point) int {
	n := 0
	for _, p := range points {
		n += cost(p, p.Chosen)
	}
	return n
}

// Explore runs the DFS. mk must build a completely fresh scenario on each call.
// onExec is called for every execution (after Check) for accounting.
func (e *Explorer) Explore(mk func() Scenario, onFound func(Found), onExec func(*Outcome, string)) {
	e.explore(mk, nil, 0, onFound, onExec, 0)
}

func (e *Explorer) runOne(mk func() Scenario, prefix []int, trace bool) (*Outcome, string, string) {
	sc := mk()
	opt := e.Opt
	opt.Trace = trace
	out := Run(prefix, opt, sc.Root)
	fp, detail := "", ""
	if out.Diverged != "" {
		fp, detail = "HARNESS:replay-diverged", out.Diverged
	} else {
		fp, detail = sc.Check(out)
	}
	return out, fp, detail
}

// Replay re-runs one choice sequence with tracing.
func (e *Explorer) Replay(mk func() Scenario, choices []int) (*Outcome, string, string) {
	return e.runOne(mk, choices, true)
}

func (e *Explorer) explore(mk func() Scenario, prefix []int, used int, onFound func(Found), onExec func(*Outcome, string), depth int) {
	if e.MaxExecs > 0 && e.Executions >= e.MaxExecs {
		e.Capped = true
		return
	}
	if e.Stopped || (e.Stop != nil && e.Stop()) {
		e.Stopped = true
		return
	}
	out, fp, detail := e.runOne(mk, prefix, false)
	e.Executions++
	if len(out.Points) > e.MaxPoints {
		e.MaxPoints = len(out.Points)
	}
	if out.Threads > e.MaxThreads {
		e.MaxThreads = out.Threads
	}
	if out.StepCap {
		e.Capped = true
	}
	if PreemptionsOf(out.Points) > 0 {
		e.Switching++
	}
	if onExec != nil {
		onExec(out, fp)
	}
	if fp != "" && onFound != nil {
		choices := make([]int, len(out.Points))
		for i, p := range out.Points {
			choices[i] = p.Chosen
		}
		// determinism: the same choices must give the same verdict twice
		out2, fp2, _ := e.runOne(mk, choices, true)
		if fp2 != fp || len(out2.Points) != len(out.Points) {
			onFound(Found{Fingerprint: "HARNESS:nondeterministic-replay", Detail: fmt.Sprintf("first run: %s / replay: %s", fp, fp2), Choices: choices})
		} else {
			onFound(Found{Fingerprint: fp, Detail: detail, Choices: choices, Preemptions: PreemptionsOf(out.Points), Trace: out2.Trace})
		}
	}
	// pre-emptions consumed by the prefix part are re-counted from the points
	usedAt := 0
	freeAt := 0 // non-default cost-free choices taken so far
	for i := 0; i < len(out.Points); i++ {
		p := out.Points[i]
		if i >= len(prefix) {
			for alt := 0; alt < p.N; alt++ {
				if alt == p.Chosen {
					continue
				}
				c := usedAt + cost(p, alt)
				if c > e.Bound {
					continue
				}
				if e.FreeLimit > 0 && cost(p, alt) == 0 && freeAt+1 > e.FreeLimit {
					continue
				}
				if depth == 0 && e.Shards > 1 {
					mine := e.topIdx%e.Shards == e.Shard
					e.topIdx++
					if !mine {
						continue
					}
				}
				np := make([]int, i+1)
				for j := 0; j < i; j++ {
					np[j] = out.Points[j].Chosen
				}
				np[i] = alt
				e.explore(mk, np, c, onFound, onExec, depth+1)
			}
		}
		usedAt += cost(p, p.Chosen)
		if p.Chosen != 0 && cost(p, p.Chosen) == 0 {
			freeAt++
		}
	}
}

// FormatTrace renders a trace for a replay artefact.
func FormatTrace(tr []string) string { return strings.Join(tr, "\n") }
