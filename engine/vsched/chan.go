package vsched

import "fmt"

type chanI interface {
	chID() any
}

// Chan is the model of a Go channel.
type Chan[T any] struct {
	buf    []T
	cap    int
	closed bool
}

func (c *Chan[T]) chID() any { return c }

// MakeChan is the rewritten make(chan T, n).
func MakeChan[T any](n ...int) *Chan[T] {
	c := &Chan[T]{}
	if len(n) > 0 {
		if n[0] < 0 {
			panic("makechan: size out of range")
		}
		c.cap = n[0]
	}
	return c
}

func (c *Chan[T]) Len() int {
	if c == nil {
		return 0
	}
	return len(c.buf)
}

func (c *Chan[T]) Cap() int {
	if c == nil {
		return 0
	}
	return c.cap
}

func never() bool { return false }

// pendingPartners lists the threads parked on an operation that could pair
// with a send (wantRecv=true: looks for receivers) or a receive on ch.
func (s *Sched) pendingPartners(ch chanI, wantRecv bool, self *thread) (ts []*thread, idx []int) {
	for _, t := range s.threads {
		if t == self || t.done || t.pending == nil || t.pending.completed || !t.pending.waiting {
			continue
		}
		o := t.pending
		if o.kind != opSend && o.kind != opRecv && o.kind != opSelect {
			continue
		}
		for i, cs := range o.cases {
			if cs.isReal || cs.ch == nil || cs.ch.chID() != ch.chID() {
				continue
			}
			if cs.send != wantRecv {
				ts = append(ts, t)
				idx = append(idx, i)
				break
			}
		}
	}
	return
}

func (c *Chan[T]) sendReady(self *thread) bool {
	if c == nil {
		return false
	}
	if c.closed || len(c.buf) < c.cap {
		return true
	}
	if c.cap > 0 {
		// full buffer: a parked receiver takes from the buffer first
		return false
	}
	ts, _ := S.pendingPartners(c, true, self)
	return len(ts) > 0
}

func (c *Chan[T]) recvReady(self *thread) bool {
	if c == nil {
		return false
	}
	if len(c.buf) > 0 || c.closed {
		return true
	}
	if c.cap > 0 {
		// empty buffer: a parked sender is itself enabled and fills the buffer first
		return false
	}
	ts, _ := S.pendingPartners(c, false, self)
	return len(ts) > 0
}

// doSend performs an enabled send by the running thread.
func (c *Chan[T]) doSend(v T) {
	s := S
	if c.closed {
		panic(plainError("send on closed channel"))
	}
	// a waiting receiver takes the value directly (buffer is empty then)
	if c.cap == 0 {
		ts, idx := s.pendingPartners(c, true, s.cur)
		if len(ts) > 0 {
			k := 0
			if len(ts) > 1 {
				k = s.choose(len(ts), false, true, -1, len(ts), "rendezvous-receiver")
			}
			o := ts[k].pending
			o.completed = true
			o.chosen = idx[k]
			o.cases[idx[k]].recvFn(v, true)
			return
		}
	}
	if len(c.buf) < c.cap {
		c.buf = append(c.buf, v)
		return
	}
	panic("vsched: send executed while not enabled")
}

// doRecv performs an enabled receive by the running thread.
func (c *Chan[T]) doRecv() (v T, ok bool) {
	s := S
	if len(c.buf) > 0 {
		v = c.buf[0]
		c.buf = c.buf[1:]
		return v, true
	}
	if c.closed {
		return v, false
	}
	ts, idx := s.pendingPartners(c, false, s.cur)
	if len(ts) > 0 {
		k := 0
		if len(ts) > 1 {
			k = s.choose(len(ts), false, true, -1, len(ts), "rendezvous-sender")
		}
		o := ts[k].pending
		o.completed = true
		o.chosen = idx[k]
		return o.cases[idx[k]].sendVal.(T), true
	}
	panic("vsched: recv executed while not enabled")
}

type plainError string

func (e plainError) Error() string  { return string(e) }
func (e plainError) RuntimeError()  {}
func (e plainError) String() string { return string(e) }

// Channel operations are two-phase. Phase 1 ("arrive") is the scheduling point
// before the operation: when the thread is picked it attempts the operation
// against the current channel state, pairing only with threads that are
// already *waiting*. If it cannot complete it registers as a waiter (phase 2)
// and parks until the state allows it or a partner completed it. This keeps
// non-blocking operations (select with default) exact: a thread that has not
// yet reached its receive is not a waiting receiver.

// Send is the rewritten `ch <- v`.
func (c *Chan[T]) Send(v T) {
	s := S
	if c == nil {
		s.point(&op{kind: opSend, obj: nil, enabled: never, waiting: true})
		return
	}
	self := s.cur
	s.point(&op{kind: opSend, obj: c, enabled: always})
	if c.sendReady(self) {
		c.doSend(v)
		return
	}
	o := &op{kind: opSend, obj: c, waiting: true, cases: []selCase{{ch: c, send: true, sendVal: v}}}
	o.enabled = func() bool { return c.sendReady(self) }
	s.point(o)
	if o.completed {
		return
	}
	c.doSend(v)
}

// Recv is the rewritten `<-ch`.
func (c *Chan[T]) Recv() T {
	v, _ := c.Recv2()
	return v
}

// Recv2 is the rewritten `v, ok := <-ch`.
func (c *Chan[T]) Recv2() (T, bool) {
	s := S
	var got T
	var gotOK bool
	if c == nil {
		s.point(&op{kind: opRecv, obj: nil, enabled: never, waiting: true})
		return got, false
	}
	self := s.cur
	s.point(&op{kind: opRecv, obj: c, enabled: always})
	if c.recvReady(self) {
		return c.doRecv()
	}
	o := &op{kind: opRecv, obj: c, waiting: true, cases: []selCase{{ch: c, recvFn: func(v any, ok bool) {
		if v != nil {
			got = v.(T)
		}
		gotOK = ok
	}}}}
	o.enabled = func() bool { return c.recvReady(self) }
	s.point(o)
	if o.completed {
		return got, gotOK
	}
	return c.doRecv()
}

// Close is the rewritten close(ch).
func (c *Chan[T]) Close() {
	s := S
	if c == nil {
		panic(plainError("close of nil channel"))
	}
	s.point(&op{kind: opAtomic, obj: c, enabled: func() bool { return true }})
	if c.closed {
		panic(plainError("close of closed channel"))
	}
	c.closed = true
	// senders parked on the channel will panic when they run (enabled by closed)
}

// ---- select ---------------------------------------------------------------------

// Case is one communication clause of a rewritten select.
type Case struct {
	sc    selCase
	ready func(self *thread) bool
	exec  func()
}

// RecvCase builds `case v, ok = <-ch`.
func RecvCase[T any](c *Chan[T], v *T, ok *bool) Case {
	if c == nil {
		return Case{sc: selCase{}, ready: func(*thread) bool { return false }}
	}
	deliver := func(x any, k bool) {
		if v != nil {
			if x != nil {
				*v = x.(T)
			} else {
				var z T
				*v = z
			}
		}
		if ok != nil {
			*ok = k
		}
	}
	return Case{
		sc:    selCase{ch: c, recvFn: deliver},
		ready: func(self *thread) bool { return c.recvReady(self) },
		exec: func() {
			x, k := c.doRecv()
			if v != nil {
				*v = x
			}
			if ok != nil {
				*ok = k
			}
		},
	}
}

// SendCase builds `case ch <- v`.
func SendCase[T any](c *Chan[T], v T) Case {
	if c == nil {
		return Case{sc: selCase{}, ready: func(*thread) bool { return false }}
	}
	return Case{
		sc:    selCase{ch: c, send: true, sendVal: v},
		ready: func(self *thread) bool { return c.sendReady(self) },
		exec:  func() { c.doSend(v) },
	}
}

// RecvRealCase builds `case <-ch` for a real, close-only channel coming from
// un-rewritten code (ctx.Done()).
func RecvRealCase(ch <-chan struct{}) Case {
	return Case{
		sc:    selCase{isReal: true, real: ch},
		ready: func(*thread) bool { return realClosed(ch) },
		exec:  func() {},
	}
}

func realClosed(ch <-chan struct{}) bool {
	if ch == nil {
		return false
	}
	select {
	case _, ok := <-ch:
		if ok {
			panic("vsched: value received from a real channel (only close-only channels are supported)")
		}
		return true
	default:
		return false
	}
}

// RecvReal is the rewritten plain `<-ctx.Done()`.
func RecvReal(ch <-chan struct{}) {
	S.point(&op{kind: opRecvReal, obj: nil, enabled: func() bool { return realClosed(ch) }})
}

// Select is the rewritten select statement: returns the index of the case that
// was performed, or -1 for default.
func Select(hasDefault bool, cases ...Case) int {
	s := S
	self := s.cur
	var obj any
	if len(cases) > 0 {
		obj = cases[0].sc.ch
	}
	s.point(&op{kind: opSelect, obj: obj, enabled: always})
	try := func() (int, bool) {
		var ready []int
		for i, c := range cases {
			if c.ready != nil && c.ready(self) {
				ready = append(ready, i)
			}
		}
		if len(ready) == 0 {
			return -1, false
		}
		k := 0
		if len(ready) > 1 {
			k = s.choose(len(ready), false, true, -1, len(ready), fmt.Sprintf("select-case(%d ready)", len(ready)))
		}
		cases[ready[k]].exec()
		return ready[k], true
	}
	if i, ok := try(); ok {
		return i
	}
	if hasDefault {
		return -1
	}
	o := &op{kind: opSelect, obj: obj, waiting: true}
	for _, c := range cases {
		o.cases = append(o.cases, c.sc)
	}
	o.enabled = func() bool {
		for _, c := range cases {
			if c.ready != nil && c.ready(self) {
				return true
			}
		}
		return false
	}
	s.point(o)
	if o.completed {
		return o.chosen
	}
	if i, ok := try(); ok {
		return i
	}
	panic("vsched: select resumed while not enabled")
}

// ZeroOf helps the rewriter declare a temporary of the element type.
func ZeroOf[T any](*Chan[T]) (z T) { return }
