package vsched

import "sync/atomic"

func always() bool { return true }

// Mutex models sync.Mutex.
type Mutex struct {
	locked bool
}

func (m *Mutex) Lock() {
	s := S
	if s == nil {
		panic("vsched.Mutex used outside an execution")
	}
	s.point(&op{kind: opLock, obj: m, enabled: func() bool { return !m.locked }})
	m.locked = true
}

func (m *Mutex) TryLock() bool {
	S.point(&op{kind: opAtomic, obj: m, enabled: always})
	if m.locked {
		return false
	}
	m.locked = true
	return true
}

func (m *Mutex) Unlock() {
	if !m.locked {
		if S != nil && S.aborting {
			return
		}
		panic(plainError("sync: unlock of unlocked mutex"))
	}
	m.locked = false
}

// RWMutex models sync.RWMutex.
type RWMutex struct {
	writer  bool
	readers int
}

func (m *RWMutex) Lock() {
	S.point(&op{kind: opLock, obj: m, enabled: func() bool { return !m.writer && m.readers == 0 }})
	m.writer = true
}
func (m *RWMutex) Unlock() {
	if !m.writer {
		if S != nil && S.aborting {
			return
		}
		panic(plainError("sync: Unlock of unlocked RWMutex"))
	}
	m.writer = false
}
func (m *RWMutex) RLock() {
	S.point(&op{kind: opRLock, obj: m, enabled: func() bool { return !m.writer }})
	m.readers++
}
func (m *RWMutex) RUnlock() {
	if m.readers <= 0 {
		if S != nil && S.aborting {
			return
		}
		panic(plainError("sync: RUnlock of unlocked RWMutex"))
	}
	m.readers--
}

// WaitGroup models sync.WaitGroup.
type WaitGroup struct {
	n int
}

func (w *WaitGroup) Add(d int) {
	if d > 0 {
		// registering new work is an atomic step of its own: another thread may run between
		// the decision to start the work and its registration (Done is not made a
		// scheduling point: it only ever enables waiters)
		apoint(w)
	}
	w.n += d
	if w.n < 0 {
		if S != nil && S.aborting {
			w.n = 0
			return
		}
		panic(plainError("sync: negative WaitGroup counter"))
	}
}
func (w *WaitGroup) Done() { w.Add(-1) }
func (w *WaitGroup) Wait() {
	S.point(&op{kind: opWait, obj: w, enabled: func() bool { return w.n == 0 }})
}

// Once models sync.Once.
type Once struct {
	done    bool
	running bool
}

func (o *Once) Do(f func()) {
	S.point(&op{kind: opOnce, obj: o, enabled: func() bool { return o.done || !o.running }})
	if o.done {
		return
	}
	o.running = true
	defer func() { o.running = false; o.done = true }()
	f()
}

// ---- atomics: a scheduling point, then the real operation ----------------------

func apoint(addr any) {
	if S != nil {
		S.point(&op{kind: opAtomic, obj: addr, enabled: always})
	}
}

func LoadUint32(a *uint32) uint32           { apoint(a); return atomic.LoadUint32(a) }
func StoreUint32(a *uint32, v uint32)       { apoint(a); atomic.StoreUint32(a, v) }
func AddUint32(a *uint32, d uint32) uint32  { apoint(a); return atomic.AddUint32(a, d) }
func SwapUint32(a *uint32, v uint32) uint32 { apoint(a); return atomic.SwapUint32(a, v) }
func CompareAndSwapUint32(a *uint32, o, n uint32) bool {
	apoint(a)
	return atomic.CompareAndSwapUint32(a, o, n)
}
func LoadInt32(a *int32) int32         { apoint(a); return atomic.LoadInt32(a) }
func StoreInt32(a *int32, v int32)     { apoint(a); atomic.StoreInt32(a, v) }
func AddInt32(a *int32, d int32) int32 { apoint(a); return atomic.AddInt32(a, d) }
func CompareAndSwapInt32(a *int32, o, n int32) bool {
	apoint(a)
	return atomic.CompareAndSwapInt32(a, o, n)
}
func LoadInt64(a *int64) int64             { apoint(a); return atomic.LoadInt64(a) }
func StoreInt64(a *int64, v int64)         { apoint(a); atomic.StoreInt64(a, v) }
func AddInt64(a *int64, d int64) int64     { apoint(a); return atomic.AddInt64(a, d) }
func LoadUint64(a *uint64) uint64          { apoint(a); return atomic.LoadUint64(a) }
func StoreUint64(a *uint64, v uint64)      { apoint(a); atomic.StoreUint64(a, v) }
func AddUint64(a *uint64, d uint64) uint64 { apoint(a); return atomic.AddUint64(a, d) }
