// Package vdkim is a small DKIM (RFC 6376 / RFC 8463) verifier written for the
// harnesses, independent of the library maddy signs with: the next hop in the
// C08 check verifies what it received with this code and with go-msgauth, and
// both have to agree that the signature is valid.
package vdkim

import (
	"bytes"
	"crypto"
	"crypto/ed25519"
	"crypto/rsa"
	"crypto/sha256"
	"crypto/x509"
	"encoding/base64"
	"errors"
	"fmt"
	"strings"
)

type Field struct {
	Raw  string // complete field including the final CRLF
	Name string // as written
}

type Result struct {
	OK          bool
	Reason      string
	Domain      string
	Selector    string
	Algo        string
	HeaderCanon string
	BodyCanon   string
	Signed      []string // h= list
	Identity    string
}

// Split separates the header fields from the body of a CRLF message.
func Split(msg []byte) ([]Field, []byte, error) {
	var fields []Field
	rest := msg
	for {
		if bytes.HasPrefix(rest, []byte("\r\n")) {
			return fields, rest[2:], nil
		}
		if len(rest) == 0 {
			return fields, nil, nil
		}
		// one field: up to a CRLF that is not followed by SP / TAB
		end := 0
		for {
			i := bytes.Index(rest[end:], []byte("\r\n"))
			if i < 0 {
				return nil, nil, errors.New("header field without CRLF")
			}
			end += i + 2
			if end < len(rest) && (rest[end] == ' ' || rest[end] == '\t') {
				continue
			}
			break
		}
		raw := string(rest[:end])
		c := strings.IndexByte(raw, ':')
		if c < 0 {
			return nil, nil, fmt.Errorf("header line without colon: %q", raw)
		}
		fields = append(fields, Field{Raw: raw, Name: strings.TrimRight(raw[:c], " \t")})
		rest = rest[end:]
	}
}

func isWSP(b byte) bool { return b == ' ' || b == '\t' }

// RelaxedHeader canonicalises one field (RFC 6376 3.4.2); the result ends in CRLF.
func RelaxedHeader(raw string) string {
	c := strings.IndexByte(raw, ':')
	name := strings.ToLower(strings.TrimRight(raw[:c], " \t"))
	val := raw[c+1:]
	val = strings.ReplaceAll(val, "\r\n", "")
	var b strings.Builder
	inWS := false
	for i := 0; i < len(val); i++ {
		if isWSP(val[i]) {
			inWS = true
			continue
		}
		if inWS && b.Len() > 0 {
			b.WriteByte(' ')
		}
		inWS = false
		b.WriteByte(val[i])
	}
	return name + ":" + b.String() + "\r\n"
}

// SimpleBody / RelaxedBody canonicalise a body (RFC 6376 3.4.3, 3.4.4).
func SimpleBody(body []byte) []byte {
	b := body
	for bytes.HasSuffix(b, []byte("\r\n\r\n")) {
		b = b[:len(b)-2]
	}
	if len(b) == 0 || bytes.Equal(b, []byte("\r\n")) {
		return []byte("\r\n")
	}
	if !bytes.HasSuffix(b, []byte("\r\n")) {
		b = append(append([]byte{}, b...), '\r', '\n')
	}
	return b
}

func RelaxedBody(body []byte) []byte {
	lines := strings.Split(string(body), "\r\n")
	// a body ending in CRLF yields a final empty element, which is not a line
	if lines[len(lines)-1] == "" {
		lines = lines[:len(lines)-1]
	}
	var out []string
	for _, l := range lines {
		var b strings.Builder
		inWS := false
		for i := 0; i < len(l); i++ {
			if isWSP(l[i]) {
				inWS = true
				continue
			}
			if inWS {
				b.WriteByte(' ')
			}
			inWS = false
			b.WriteByte(l[i])
		}
		out = append(out, b.String())
	}
	for len(out) > 0 && out[len(out)-1] == "" {
		out = out[:len(out)-1]
	}
	if len(out) == 0 {
		return nil
	}
	return []byte(strings.Join(out, "\r\n") + "\r\n")
}

func stripFWS(s string) string {
	return strings.Map(func(r rune) rune {
		if r == ' ' || r == '\t' || r == '\r' || r == '\n' {
			return -1
		}
		return r
	}, s)
}

func parseTags(val string) (map[string]string, error) {
	tags := map[string]string{}
	for _, piece := range strings.Split(val, ";") {
		if strings.TrimSpace(strings.ReplaceAll(piece, "\r\n", "")) == "" {
			continue
		}
		eq := strings.IndexByte(piece, '=')
		if eq < 0 {
			return nil, fmt.Errorf("tag without '=': %q", piece)
		}
		name := strings.TrimSpace(strings.ReplaceAll(piece[:eq], "\r\n", ""))
		v := strings.TrimSpace(strings.ReplaceAll(piece[eq+1:], "\r\n", ""))
		if _, dup := tags[name]; dup {
			return nil, fmt.Errorf("duplicate tag %q", name)
		}
		tags[name] = v
	}
	return tags, nil
}

// withoutB returns the raw signature field with the value of the b= tag removed.
func withoutB(raw string) string {
	c := strings.IndexByte(raw, ':')
	pieces := strings.Split(raw[c+1:], ";")
	for i, p := range pieces {
		eq := strings.IndexByte(p, '=')
		if eq < 0 {
			continue
		}
		if strings.TrimSpace(strings.ReplaceAll(p[:eq], "\r\n", "")) == "b" {
			tail := ""
			if i == len(pieces)-1 {
				// keep the CRLF that ends the field
				tail = "\r\n"
			}
			pieces[i] = p[:eq+1] + tail
		}
	}
	return raw[:c+1] + strings.Join(pieces, ";")
}

// Verify checks every DKIM-Signature field of the message. lookup returns the
// TXT record published at <selector>._domainkey.<domain>.
func Verify(msg []byte, lookup func(selector, domain string) (string, error)) ([]Result, error) {
	fields, body, err := Split(msg)
	if err != nil {
		return nil, err
	}
	var res []Result
	for si, f := range fields {
		if !strings.EqualFold(f.Name, "DKIM-Signature") {
			continue
		}
		res = append(res, verifyOne(fields, si, body, lookup))
	}
	return res, nil
}

func verifyOne(fields []Field, si int, body []byte, lookup func(selector, domain string) (string, error)) (r Result) {
	sig := fields[si]
	c := strings.IndexByte(sig.Raw, ':')
	tags, err := parseTags(sig.Raw[c+1:])
	if err != nil {
		r.Reason = "malformed signature: " + err.Error()
		return
	}
	for _, req := range []string{"v", "a", "b", "bh", "d", "h", "s"} {
		if _, ok := tags[req]; !ok {
			r.Reason = "missing tag " + req
			return
		}
	}
	if tags["v"] != "1" {
		r.Reason = "unsupported version"
		return
	}
	r.Domain, r.Selector, r.Algo, r.Identity = tags["d"], tags["s"], tags["a"], tags["i"]
	hc, bc := "simple", "simple"
	if cv, ok := tags["c"]; ok {
		parts := strings.SplitN(cv, "/", 2)
		hc = parts[0]
		if len(parts) == 2 {
			bc = parts[1]
		}
	}
	r.HeaderCanon, r.BodyCanon = hc, bc
	for _, h := range strings.Split(tags["h"], ":") {
		r.Signed = append(r.Signed, strings.TrimSpace(stripFWS(h)))
	}
	fromSigned := false
	for _, h := range r.Signed {
		if strings.EqualFold(h, "from") {
			fromSigned = true
		}
	}
	if !fromSigned {
		r.Reason = "From is not signed"
		return
	}
	if r.Identity != "" {
		at := strings.LastIndexByte(r.Identity, '@')
		if at < 0 {
			r.Reason = "malformed i="
			return
		}
		idDom := strings.ToLower(r.Identity[at+1:])
		d := strings.ToLower(r.Domain)
		if idDom != d && !strings.HasSuffix(idDom, "."+d) {
			r.Reason = "i= is not within d="
			return
		}
	}
	if _, hasL := tags["l"]; hasL {
		r.Reason = "l= is not supported by this verifier"
		return
	}

	// body hash
	var cb []byte
	switch bc {
	case "simple":
		cb = SimpleBody(body)
	case "relaxed":
		cb = RelaxedBody(body)
	default:
		r.Reason = "unknown body canonicalization"
		return
	}
	bh := sha256.Sum256(cb)
	wantBH, err := base64.StdEncoding.DecodeString(stripFWS(tags["bh"]))
	if err != nil {
		r.Reason = "bh= is not base64"
		return
	}
	if !bytes.Equal(bh[:], wantBH) {
		r.Reason = "body hash does not match"
		return
	}

	// header hash
	used := map[int]bool{}
	var data strings.Builder
	canon := func(raw string) string {
		if hc == "relaxed" {
			return RelaxedHeader(raw)
		}
		return raw
	}
	if hc != "relaxed" && hc != "simple" {
		r.Reason = "unknown header canonicalization"
		return
	}
	for _, name := range r.Signed {
		for i := len(fields) - 1; i >= 0; i-- {
			if used[i] || !strings.EqualFold(fields[i].Name, name) {
				continue
			}
			if i == si {
				continue
			}
			used[i] = true
			data.WriteString(canon(fields[i].Raw))
			break
		}
	}
	own := canon(withoutB(sig.Raw))
	data.WriteString(strings.TrimSuffix(own, "\r\n"))
	sum := sha256.Sum256([]byte(data.String()))

	sigBytes, err := base64.StdEncoding.DecodeString(stripFWS(tags["b"]))
	if err != nil {
		r.Reason = "b= is not base64"
		return
	}
	rec, err := lookup(r.Selector, r.Domain)
	if err != nil {
		r.Reason = "key lookup: " + err.Error()
		return
	}
	ktags, err := parseTags(rec)
	if err != nil {
		r.Reason = "malformed key record"
		return
	}
	if v, ok := ktags["v"]; ok && v != "DKIM1" {
		r.Reason = "key record version"
		return
	}
	pub, err := base64.StdEncoding.DecodeString(stripFWS(ktags["p"]))
	if err != nil || len(pub) == 0 {
		r.Reason = "key record without usable p="
		return
	}
	ktype := ktags["k"]
	if ktype == "" {
		ktype = "rsa"
	}
	switch r.Algo {
	case "rsa-sha256":
		if ktype != "rsa" {
			r.Reason = "key type does not match algorithm"
			return
		}
		k, err := x509.ParsePKIXPublicKey(pub)
		if err != nil {
			r.Reason = "RSA key: " + err.Error()
			return
		}
		rk, ok := k.(*rsa.PublicKey)
		if !ok {
			r.Reason = "not an RSA key"
			return
		}
		if err := rsa.VerifyPKCS1v15(rk, crypto.SHA256, sum[:], sigBytes); err != nil {
			r.Reason = "signature does not verify"
			return
		}
	case "ed25519-sha256":
		if ktype != "ed25519" {
			r.Reason = "key type does not match algorithm"
			return
		}
		if len(pub) != ed25519.PublicKeySize {
			r.Reason = "Ed25519 key size"
			return
		}
		if !ed25519.Verify(ed25519.PublicKey(pub), sum[:], sigBytes) {
			r.Reason = "signature does not verify"
			return
		}
	default:
		r.Reason = "unsupported algorithm " + r.Algo
		return
	}
	r.OK = true
	return
}
