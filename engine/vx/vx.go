// Package vx is the common run-time of all verification harnesses: it counts
// what an exhaustive enumeration covered, matches violations against the
// committed known-findings file, writes replay artefacts and the evidence
// part file of the running shard. It is injected into the maddy module with
// `go build -overlay` as github.com/foxcpp/maddy/internal/verif/vx.
package vx

import (
	"runtime/debug"
	"bufio"
	"crypto/sha256"
	"encoding/binary"
	"encoding/hex"
	"encoding/json"
	"fmt"
	"hash/fnv"
	"os"
	"path/filepath"
	"runtime"
	"sort"
	"strconv"
	"strings"
	"sync"
	"time"
)

// Run accumulates the coverage of one harness process (one shard of one part
// of one property).
type Run struct {
	Prop  string
	Part  string
	Tier  string
	Shard int
	Of    int

	mu          sync.Mutex
	start       time.Time
	evals       int64
	keys        map[uint64]struct{}
	outcomes    map[string]int64
	samples     []any
	maxSamples  int
	counters    map[string]int64
	bounds      map[string]any
	assumptions []string
	rule        string
	exhaustive  bool
	capsHit     []string

	known                        map[string]knownEntry
	knownSeen                    map[string]int64
	violations                   map[string]int64
	violOrder                    []string
	harnessErr                   []string
	replay                       json.RawMessage
	finished                     bool
	resumeAfter                  *int64
	partsDir, replayDir, attempt string
	quietScenarios               bool
}

type knownEntry struct {
	Property string `json:"property"`
	Key      string `json:"key"`
	What     string `json:"what"`
	Status   string `json:"status"`
	Commit   string `json:"commit,omitempty"`
}

// Tier returns "quick" or "thorough".
func Tier() string {
	t := os.Getenv("VERIF_TIER")
	if t != "thorough" {
		return "quick"
	}
	return t
}

func Thorough() bool { return Tier() == "thorough" }

func envInt(name string, def int) int {
	if v, err := strconv.Atoi(os.Getenv(name)); err == nil {
		return v
	}
	return def
}

// Start opens a run. The shard is taken from VERIF_SHARD / VERIF_SHARDS.
func Start(prop, part string) *Run {
	r := &Run{
		Prop: prop, Part: part, Tier: Tier(),
		Shard: envInt("VERIF_SHARD", 0), Of: envInt("VERIF_SHARDS", 1),
		start:      time.Now(),
		keys:       map[uint64]struct{}{},
		outcomes:   map[string]int64{},
		counters:   map[string]int64{},
		bounds:     map[string]any{},
		maxSamples: 6,
		exhaustive: true,
		known:      map[string]knownEntry{},
		knownSeen:  map[string]int64{},
		violations: map[string]int64{},
		partsDir:   os.Getenv("VERIF_PARTS_DIR"), replayDir: os.Getenv("VERIF_REPLAY_DIR"), attempt: os.Getenv("VERIF_ATTEMPT"),
	}
	if p := os.Getenv("VERIF_KNOWN"); p != "" {
		if f, err := os.Open(p); err == nil {
			sc := bufio.NewScanner(f)
			sc.Buffer(make([]byte, 1<<20), 1<<20)
			for sc.Scan() {
				line := strings.TrimSpace(sc.Text())
				if line == "" || strings.HasPrefix(line, "#") {
					continue
				}
				var e knownEntry
				if json.Unmarshal([]byte(line), &e) == nil && e.Property == prop && e.Status == "known" {
					r.known[e.Key] = e
				}
			}
			f.Close()
		}
	}
	if p := os.Getenv("VERIF_REPLAY"); p != "" {
		b, err := os.ReadFile(p)
		if err != nil {
			r.HarnessError("cannot read replay file: " + err.Error())
		} else {
			var rf struct {
				Part string          `json:"part"`
				Case json.RawMessage `json:"case"`
			}
			if err := json.Unmarshal(b, &rf); err != nil {
				r.HarnessError("bad replay file: " + err.Error())
			} else if rf.Part == part {
				r.replay = rf.Case
			} else {
				r.replay = json.RawMessage("null")
			}
		}
	}
	return r
}

// Mine reports whether the i-th top-level case belongs to this shard.
func (r *Run) Mine(i int) bool { return r.Of <= 1 || i%r.Of == r.Shard }

// Replay returns the case of the replay file addressed to this part (nil when
// not replaying). A harness that is replaying runs only that case.
func (r *Run) Replay() json.RawMessage {
	if r.replay == nil || string(r.replay) == "null" {
		return nil
	}
	return r.replay
}

// Replaying tells whether a replay file was given at all (possibly for
// another part; then this part has nothing to do).
func (r *Run) Replaying() bool { return r.replay != nil }

func (r *Run) Rule(s string)           { r.rule = s }
func (r *Run) Assume(s string)         { r.mu.Lock(); r.assumptions = append(r.assumptions, s); r.mu.Unlock() }
func (r *Run) Bound(k string, v any)   { r.mu.Lock(); r.bounds[k] = v; r.mu.Unlock() }
func (r *Run) Count(k string, n int64) { r.mu.Lock(); r.counters[k] += n; r.mu.Unlock() }
func (r *Run) MaxCount(k string, n int64) {
	r.mu.Lock()
	if r.counters[k] < n {
		r.counters[k] = n
	}
	r.mu.Unlock()
}

// Cap records that some bound stopped the enumeration early: the run is then
// not exhaustive for its stated space.
func (r *Run) Cap(what string) {
	r.mu.Lock()
	r.exhaustive = false
	if len(r.capsHit) < 20 {
		r.capsHit = append(r.capsHit, what)
	}
	r.mu.Unlock()
}

// Eval counts one evaluated case / execution.
func (r *Run) Eval()         { r.mu.Lock(); r.evals++; r.mu.Unlock() }
func (r *Run) Evals(n int64) { r.mu.Lock(); r.evals += n; r.mu.Unlock() }

func h64(s string) uint64 { h := fnv.New64a(); h.Write([]byte(s)); return h.Sum64() }

// Nontrivial records a distinct non-trivial case by key.
func (r *Run) Nontrivial(key string) {
	k := h64(key)
	r.mu.Lock()
	r.keys[k] = struct{}{}
	r.mu.Unlock()
}

// Outcome adds to the histogram of distinct observations.
func (r *Run) Outcome(name string) { r.mu.Lock(); r.outcomes[name]++; r.mu.Unlock() }

// Sample keeps the first few cases written out.
func (r *Run) Sample(v any) {
	r.mu.Lock()
	if len(r.samples) < r.maxSamples {
		r.samples = append(r.samples, v)
	}
	r.mu.Unlock()
}

// HarnessError marks the run broken (exit 2): neither pass nor violation.
func (r *Run) HarnessError(msg string) {
	r.mu.Lock()
	r.harnessErr = append(r.harnessErr, msg)
	r.mu.Unlock()
	fmt.Printf("HARNESS-ERROR property=%s part=%s %s\n", r.Prop, r.Part, msg)
}

// Violation reports a property violation identified by a stable fingerprint.
// caseDesc must be what the harness needs to re-run exactly this case.
func (r *Run) Violation(fingerprint, detail string, caseDesc any) {
	r.mu.Lock()
	defer r.mu.Unlock()
	if e, ok := r.known[fingerprint]; ok {
		r.knownSeen[fingerprint]++
		if r.knownSeen[fingerprint] == 1 {
			fmt.Printf("KNOWN-FINDING: property=%s %s [%s]\n", r.Prop, e.What, fingerprint)
		}
		return
	}
	r.violations[fingerprint]++
	if r.violations[fingerprint] > 1 {
		return
	}
	r.violOrder = append(r.violOrder, fingerprint)
	dir := r.replayDir
	if dir == "" {
		dir = os.TempDir()
	}
	os.MkdirAll(dir, 0o755)
	sum := sha256.Sum256([]byte(r.Prop + "\x00" + r.Part + "\x00" + fingerprint))
	path := filepath.Join(dir, fmt.Sprintf("%s-%s-%s.json", r.Prop, sanitize(r.Part), hex.EncodeToString(sum[:6])))
	b, _ := json.MarshalIndent(map[string]any{
		"property": r.Prop, "part": r.Part, "fingerprint": fingerprint,
		"detail": detail, "case": caseDesc, "tier": r.Tier,
	}, "", " ")
	os.WriteFile(path, b, 0o644)
	fmt.Printf("VIOLATION property=%s replay=%s\n", r.Prop, path)
	fmt.Printf("  fingerprint: %s\n  detail: %s\n", fingerprint, trunc(detail, 2000))
}

func sanitize(s string) string {
	return strings.Map(func(c rune) rune {
		if c >= 'a' && c <= 'z' || c >= 'A' && c <= 'Z' || c >= '0' && c <= '9' || c == '-' || c == '_' {
			return c
		}
		return '_'
	}, s)
}

func trunc(s string, n int) string {
	if len(s) > n {
		return s[:n] + "…"
	}
	return s
}

// Violations returns the number of distinct new (not listed) fingerprints.
func (r *Run) Violations() int { r.mu.Lock(); defer r.mu.Unlock(); return len(r.violations) }

// Finish writes the part file (and the key sidecar) of this shard.
func (r *Run) Finish() {
	// Finish is the deferred call of every harness test: a panic that unwinds the
	// test goroutine (not caught by the harness) must not end in a report that looks
	// complete. The first maddy frame below the panic decides: code under test =>
	// violation, harness code => harness error. The panic is not re-raised (the
	// report carries it).
	if p := recover(); p != nil {
		st := string(debug.Stack())
		site, harness := "?", true
		seenPanic := false
		for _, l := range strings.Split(st, "\n") {
			if strings.HasPrefix(l, "panic(") {
				seenPanic = true
				continue
			}
			if !seenPanic || !strings.HasPrefix(l, "github.com/foxcpp/maddy/") {
				continue
			}
			fn := l
			if i := strings.LastIndex(fn, "("); i > 0 {
				fn = fn[:i]
			}
			harness = strings.Contains(fn, "/internal/verif/") || strings.Contains(fn, "TestVerif") || strings.Contains(l, "zz_verif") || strings.Contains(fn, ".c0") || strings.Contains(fn, ".c1") || strings.Contains(fn, ".c2")
			site = fn[strings.LastIndex(fn, "/")+1:]
			break
		}
		fmt.Printf("PANIC in the test goroutine: %v\n%s\n", p, st)
		if harness {
			r.HarnessError(fmt.Sprintf("panic in harness code (%s): %v", site, p))
		} else {
			r.Violation(r.Prop+":panic-in-test-goroutine:"+site, fmt.Sprintf("panic: %v\n%s", p, st), map[string]any{"panic": fmt.Sprint(p)})
		}
	}
	r.mu.Lock()
	defer r.mu.Unlock()
	if r.finished {
		return
	}
	r.finished = true
	dir := r.partsDir
	if dir == "" {
		fmt.Printf("vx: VERIF_PARTS_DIR not set; evals=%d nontrivial=%d violations=%d\n", r.evals, len(r.keys), len(r.violations))
		return
	}
	os.MkdirAll(dir, 0o755)
	base := filepath.Join(dir, fmt.Sprintf("%s.%s.%d", r.Prop, sanitize(r.Part), r.Shard))
	if a := r.attempt; a != "" && a != "0" {
		base += "-" + a
	}
	kb := make([]byte, 0, 8*len(r.keys))
	for k := range r.keys {
		kb = binary.LittleEndian.AppendUint64(kb, k)
	}
	os.WriteFile(base+".keys", kb, 0o644)
	vio := map[string]int64{}
	for k, v := range r.violations {
		vio[k] = v
	}
	out := map[string]any{
		"property": r.Prop, "part": r.Part, "shard": r.Shard, "shards": r.Of, "tier": r.Tier,
		"evaluations": r.evals, "distinct_keys": len(r.keys), "outcomes": r.outcomes,
		"samples": r.samples, "counters": r.counters, "bounds": r.bounds,
		"assumptions": r.assumptions, "rule": r.rule, "exhaustive": r.exhaustive,
		"caps_hit": r.capsHit, "known_seen": r.knownSeen, "violations": vio,
		"violation_order": r.violOrder, "harness_errors": r.harnessErr,
		"wall_s": time.Since(r.start).Seconds(), "replaying": r.replay != nil,
	}
	if r.resumeAfter != nil {
		out["resume_after"] = *r.resumeAfter
	}
	b, _ := json.MarshalIndent(out, "", " ")
	if err := os.WriteFile(base+".json", b, 0o644); err != nil {
		fmt.Println("HARNESS-ERROR cannot write part file:", err)
	}
}

// SortedKeys is a helper for deterministic map iteration in harnesses.
func SortedKeys[V any](m map[string]V) []string {
	ks := make([]string, 0, len(m))
	for k := range m {
		ks = append(ks, k)
	}
	sort.Strings(ks)
	return ks
}

// Catch runs f and returns the recovered panic value (nil if none).
func Catch(f func()) (p any) {
	defer func() { p = recover() }()
	f()
	return nil
}

// JSON is a helper rendering any value compactly for details / keys.
func JSON(v any) string { b, _ := json.Marshal(v); return string(b) }

// ---- watchdog: cases that hang or eat memory ---------------------------------
//
// A harness whose property includes termination calls Begin(idx, desc) before
// each case. If one case runs longer than maxCase or the heap grows beyond
// maxHeap, the watchdog reports it through onTrip (which must call Violation),
// writes the part file with "resume_after" = idx and exits with code 3; the
// driver restarts the shard after that case.

type watch struct {
	idx   int64
	desc  any
	since time.Time
}

var curCase struct {
	sync.Mutex
	w watch
}

// ResumeAfter is the case index after which this (restarted) shard continues; -1 if fresh.
func ResumeAfter() int64 {
	if v, err := strconv.ParseInt(os.Getenv("VERIF_RESUME_AFTER"), 10, 64); err == nil {
		return v
	}
	return -1
}

func (r *Run) Begin(idx int64, desc any) {
	curCase.Lock()
	curCase.w = watch{idx, desc, time.Now()}
	curCase.Unlock()
}

func (r *Run) StartWatchdog(maxCase time.Duration, maxHeapBytes uint64, onTrip func(desc any, why string)) {
	go func() {
		var ms runtimeMem
		for {
			time.Sleep(20 * time.Millisecond)
			curCase.Lock()
			w := curCase.w
			curCase.Unlock()
			if w.since.IsZero() {
				continue
			}
			why := ""
			if time.Since(w.since) > maxCase {
				why = fmt.Sprintf("one case ran longer than %s", maxCase)
			} else if h := ms.heap(); h > maxHeapBytes {
				why = fmt.Sprintf("heap grew to %d MiB within one case", h>>20)
			}
			if why == "" {
				continue
			}
			onTrip(w.desc, why)
			r.mu.Lock()
			r.counters["watchdog_trips"]++
			r.bounds["resume_after"] = w.idx
			r.mu.Unlock()
			r.resumeAfter = &w.idx
			r.Finish()
			os.Exit(3)
		}
	}()
}

// PanicSite condenses a "value\nstack" panic report into "<first line>@<top
// maddy function>" — a stable, defect-specific fingerprint component.
func PanicSite(p string) string {
	lines := strings.Split(p, "\n")
	first := lines[0]
	if i := strings.Index(first, "): "); i >= 0 && strings.HasPrefix(first, "t") {
		first = first[i+3:]
	}
	site := "?"
	for _, l := range lines[1:] {
		if !strings.HasPrefix(l, "github.com/foxcpp/maddy/") {
			continue
		}
		fn := l
		if i := strings.LastIndex(fn, "("); i > 0 {
			fn = fn[:i]
		}
		if strings.Contains(fn, "/internal/verif/") || strings.Contains(fn, "TestVerif") || strings.Contains(fn, ".verif") {
			continue
		}
		site = fn[strings.LastIndex(fn, "/")+1:]
		break
	}
	return first + "@" + site
}

// PanicFrame returns the top maddy (non-harness) function on the stack of a
// panic being recovered; call it from the deferred function.
func PanicFrame(skip int) string {
	pcs := make([]uintptr, 64)
	n := runtime.Callers(skip, pcs)
	fr := runtime.CallersFrames(pcs[:n])
	for {
		f, more := fr.Next()
		fn := f.Function
		if strings.HasPrefix(fn, "github.com/foxcpp/maddy/") && !strings.Contains(fn, "/internal/verif/") && !strings.Contains(fn, "TestVerif") && !strings.Contains(f.File, "zz_verif") {
			return fn[strings.LastIndex(fn, "/")+1:]
		}
		if !more {
			return "?"
		}
	}
}
