package vx

import "runtime/metrics"

type runtimeMem struct{ s []metrics.Sample }

func (m *runtimeMem) heap() uint64 {
	if m.s == nil {
		m.s = []metrics.Sample{{Name: "/memory/classes/heap/objects:bytes"}}
	}
	metrics.Read(m.s)
	if m.s[0].Value.Kind() == metrics.KindUint64 {
		return m.s[0].Value.Uint64()
	}
	return 0
}
