package vx

import (
	"encoding/json"
	"fmt"
	"strings"

	"github.com/foxcpp/maddy/internal/verif/vsched"
)

// SchedCase is the replayable description of one schedule of one scenario.
type SchedCase struct {
	Scenario string `json:"scenario"`
	Choices  []int  `json:"choices"`
}

// ScheduleScenario is a named scenario for the schedule explorer.
type ScheduleScenario struct {
	Name  string
	Bound int // pre-emption bound for this tier
	Opt   vsched.Options
	Make  func() vsched.Scenario
	// MaxExecs caps the exploration (0 = none); hitting it is reported.
	MaxExecs int64
	// FreeLimit bounds the number of non-default cost-free choices (0 = unlimited).
	FreeLimit int
}

// ExploreScenarioList explores scenarios that were already distributed over
// the shards by the caller (each scenario is explored completely by one shard).
func (r *Run) ExploreScenarioList(scs []ScheduleScenario) {
	shard, of := r.Shard, r.Of
	r.Shard, r.Of = 0, 1
	r.quietScenarios = len(scs) > 50
	r.ExploreSchedules(scs)
	r.Shard, r.Of = shard, of
}

// ExploreSchedules explores every scenario (iterating the pre-emption bound
// 0..Bound), reporting violations with replayable choice sequences.
func (r *Run) ExploreSchedules(scs []ScheduleScenario) {
	if rp := r.Replay(); rp != nil {
		var c SchedCase
		if err := json.Unmarshal(rp, &c); err != nil {
			r.HarnessError("bad replay case: " + err.Error())
			return
		}
		for _, sc := range scs {
			if sc.Name != c.Scenario {
				continue
			}
			e := &vsched.Explorer{Opt: sc.Opt}
			out, fp, detail := e.Replay(sc.Make, c.Choices)
			r.Eval()
			fmt.Printf("NOTE: replay of %s: %d points, fingerprint=%q\n%s\n", sc.Name, len(out.Points), fp, vsched.FormatTrace(out.Trace))
			if fp != "" {
				r.Violation(fp, detail, c)
			}
			return
		}
		r.HarnessError("replay: unknown scenario " + c.Scenario)
		return
	}
	if r.Replaying() {
		return
	}
	for _, sc := range scs {
		sc := sc
		outcomes := map[string]int64{}
		completed := -1
		var total, switching int64
		maxPoints, maxThreads := 0, 0
		for b := 0; b <= sc.Bound; b++ {
			if b < sc.Bound && b > 0 && sc.Bound > 1 && b != sc.Bound-1 {
				// bounds are cumulative: exploring 0, Bound-1 and Bound gives the
				// small counter-examples first without re-running every level
				continue
			}
			v0 := r.Violations()
			e := &vsched.Explorer{Bound: b, Opt: sc.Opt, Shard: r.Shard, Shards: r.Of, MaxExecs: sc.MaxExecs, FreeLimit: sc.FreeLimit}
			// a new (unlisted) violation ends the exploration of this scenario: the
			// check fails anyway and broken code may make every execution slow
			e.Stop = func() bool { return r.Violations() > v0 }
			found := 0
			e.Explore(sc.Make, func(f vsched.Found) {
				found++
				if strings.HasPrefix(f.Fingerprint, "HARNESS:") {
					r.HarnessError(sc.Name + ": " + f.Fingerprint + " " + f.Detail)
					return
				}
				r.Violation(f.Fingerprint, fmt.Sprintf("scenario %s, %d pre-emption(s), %d choices\n%s\n--- schedule ---\n%s", sc.Name, f.Preemptions, len(f.Choices), f.Detail, vsched.FormatTrace(f.Trace)), SchedCase{sc.Name, f.Choices})
			}, func(o *vsched.Outcome, fp string) {
				r.Eval()
				k := "ok"
				if o.Note != "" {
					k = o.Note
				}
				if fp != "" {
					k = fp
				} else if o.Deadlock {
					k = "deadlock"
				}
				outcomes[k]++
				if b == sc.Bound || found > 0 {
					// a schedule is identified by its choice sequence
					if vsched.PreemptionsOf(o.Points) > 0 || o.Switches > 1 {
						var sb strings.Builder
						sb.WriteString(sc.Name)
						for _, p := range o.Points {
							fmt.Fprintf(&sb, ",%d", p.Chosen)
						}
						r.Nontrivial(sb.String())
					}
				}
			})
			total += e.Executions
			switching += e.Switching
			if e.MaxPoints > maxPoints {
				maxPoints = e.MaxPoints
			}
			if e.MaxThreads > maxThreads {
				maxThreads = e.MaxThreads
			}
			if e.Stopped {
				r.Cap(fmt.Sprintf("%s: exploration stopped after a new violation at bound %d", sc.Name, b))
				break
			}
			if e.Capped {
				r.Cap(fmt.Sprintf("%s: exploration capped at bound %d (%d executions)", sc.Name, b, e.Executions))
				break
			}
			completed = b
			if found > 0 {
				break
			}
		}
		if !r.quietScenarios {
			r.Bound(sc.Name+".preemption_bound_completed", completed)
		} else if completed != sc.Bound {
			r.Bound(sc.Name+".preemption_bound_completed", completed)
		}
		r.Count("schedules", total)
		r.MaxCount("max_points", int64(maxPoints))
		r.MaxCount("max_threads", int64(maxThreads))
		for k, v := range outcomes {
			r.mu.Lock()
			if r.quietScenarios {
				r.outcomes[k] += v
			} else {
				r.outcomes[sc.Name+":"+k] += v
			}
			r.mu.Unlock()
		}
		r.Sample(map[string]any{"scenario": sc.Name, "bound_completed": completed, "executions": total, "max_points": maxPoints, "threads": maxThreads})
	}
}
