// Package mon provides monitored, scripted module.DeliveryTarget objects: every
// delivery opened on them is tracked through its typestate
// (Start -> AddRcpt* -> Body|BodyNonAtomic -> Commit|Abort) and faults can be
// injected at each stage. Shared by the endpoint and remote-target harnesses.
package mon

import (
	"context"
	"fmt"
	"io"
	"strings"
	"sync"

	"github.com/emersion/go-message/textproto"
	"github.com/emersion/go-smtp"
	"github.com/foxcpp/maddy/framework/buffer"
	"github.com/foxcpp/maddy/framework/config"
	"github.com/foxcpp/maddy/framework/module"
)

// Deliv is the record of one delivery.
type Deliv struct {
	Seq        int
	From       string
	MsgID      string
	Offered    []string
	Accepted   []string
	BodySeen   int
	NonAtomic  bool
	Quarantine bool // msgMeta.Quarantine at body time
	Header     textproto.Header
	Body       []byte
	Closed     string // "", commit, abort, start-failed
	CommitOK   bool
	Events     []string
	Meta       *module.MsgMetadata
}

// Target is a monitored scripted delivery target.
type Target struct {
	N       string
	Partial bool
	// Fault returns the error to inject at a stage ("start","rcpt","body","status","commit","abort"); nil = none.
	Fault func(d *Deliv, stage, rcpt string) error

	mu   sync.Mutex
	Dels []*Deliv
	Viol []string
}

func (t *Target) Name() string           { return "verif_target" }
func (t *Target) InstanceName() string   { return t.N }
func (t *Target) Init(*config.Map) error { return nil }

func (t *Target) fault(d *Deliv, stage, rcpt string) error {
	if t.Fault == nil {
		return nil
	}
	return t.Fault(d, stage, rcpt)
}

func (t *Target) bad(d *Deliv, what string) {
	t.Viol = append(t.Viol, fmt.Sprintf("target %s delivery #%d: %s [%s]", t.N, d.Seq, what, strings.Join(d.Events, ",")))
}

// Snapshot returns copies of the records (safe to read while the target is in use).
func (t *Target) Snapshot() ([]Deliv, []string) {
	t.mu.Lock()
	defer t.mu.Unlock()
	out := make([]Deliv, len(t.Dels))
	for i, d := range t.Dels {
		out[i] = *d
		out[i].Offered = append([]string{}, d.Offered...)
		out[i].Accepted = append([]string{}, d.Accepted...)
		out[i].Events = append([]string{}, d.Events...)
	}
	return out, append([]string{}, t.Viol...)
}

// Reset forgets all records.
func (t *Target) Reset() {
	t.mu.Lock()
	t.Dels, t.Viol = nil, nil
	t.mu.Unlock()
}

type delivery struct {
	t *Target
	d *Deliv
}

type partialDelivery struct{ *delivery }

func (t *Target) Start(ctx context.Context, msgMeta *module.MsgMetadata, mailFrom string) (module.Delivery, error) {
	t.mu.Lock()
	defer t.mu.Unlock()
	d := &Deliv{Seq: len(t.Dels), From: mailFrom, MsgID: msgMeta.ID, Meta: msgMeta}
	t.Dels = append(t.Dels, d)
	d.Events = append(d.Events, "start")
	if err := t.fault(d, "start", ""); err != nil {
		d.Closed = "start-failed"
		return nil, err
	}
	dl := &delivery{t, d}
	if t.Partial {
		return &partialDelivery{dl}, nil
	}
	return dl, nil
}

func (q *delivery) AddRcpt(ctx context.Context, rcptTo string, _ smtp.RcptOptions) error {
	q.t.mu.Lock()
	defer q.t.mu.Unlock()
	d := q.d
	if d.Closed != "" {
		q.t.bad(d, "AddRcpt after "+d.Closed)
	}
	if d.BodySeen > 0 {
		q.t.bad(d, "AddRcpt after Body")
	}
	d.Offered = append(d.Offered, rcptTo)
	if err := q.t.fault(d, "rcpt", rcptTo); err != nil {
		d.Events = append(d.Events, "rcpt("+rcptTo+")=err")
		return err
	}
	d.Events = append(d.Events, "rcpt("+rcptTo+")")
	d.Accepted = append(d.Accepted, rcptTo)
	return nil
}

func (q *delivery) body(header textproto.Header, body buffer.Buffer) {
	d := q.d
	if d.Closed != "" {
		q.t.bad(d, "Body after "+d.Closed)
	}
	if d.BodySeen > 0 {
		q.t.bad(d, "Body called twice")
	}
	d.BodySeen++
	d.Quarantine = d.Meta.Quarantine
	d.Header = header.Copy()
	if body != nil {
		if r, err := body.Open(); err == nil {
			d.Body, _ = io.ReadAll(r)
			r.Close()
		}
	}
}

func (q *delivery) Body(ctx context.Context, header textproto.Header, body buffer.Buffer) error {
	q.t.mu.Lock()
	defer q.t.mu.Unlock()
	q.body(header, body)
	err := q.t.fault(q.d, "body", "")
	if err != nil {
		q.d.Events = append(q.d.Events, "body=err")
	} else {
		q.d.Events = append(q.d.Events, "body")
	}
	return err
}

func (q *partialDelivery) BodyNonAtomic(ctx context.Context, sc module.StatusCollector, header textproto.Header, body buffer.Buffer) {
	q.t.mu.Lock()
	q.body(header, body)
	q.d.NonAtomic = true
	acc := append([]string{}, q.d.Accepted...)
	q.t.mu.Unlock()
	for _, r := range acc {
		q.t.mu.Lock()
		err := q.t.fault(q.d, "status", r)
		if err != nil {
			q.d.Events = append(q.d.Events, "status("+r+")=err")
		}
		q.t.mu.Unlock()
		sc.SetStatus(r, err)
	}
}

func (q *delivery) Abort(ctx context.Context) error {
	q.t.mu.Lock()
	defer q.t.mu.Unlock()
	d := q.d
	if d.Closed != "" {
		q.t.bad(d, "Abort after "+d.Closed)
	}
	d.Closed = "abort"
	d.Events = append(d.Events, "abort")
	return q.t.fault(d, "abort", "")
}

func (q *delivery) Commit(ctx context.Context) error {
	q.t.mu.Lock()
	defer q.t.mu.Unlock()
	d := q.d
	if d.Closed != "" {
		q.t.bad(d, "Commit after "+d.Closed)
	}
	err := q.t.fault(d, "commit", "")
	d.Closed = "commit"
	d.CommitOK = err == nil
	if err != nil {
		d.Events = append(d.Events, "commit=err")
	} else {
		d.Events = append(d.Events, "commit")
	}
	return err
}
