// Package peers provides scripted next hops for the outbound harnesses: a
// real go-smtp server per MX host served over in-memory pipes (reached through
// the targets' dialer seam), a small PKI, and recording of every accepted
// transaction together with the facts of the connection it arrived on.
package peers

import (
	"context"
	"crypto/ecdsa"
	"crypto/elliptic"
	"crypto/rand"
	"crypto/tls"
	"crypto/x509"
	"crypto/x509/pkix"
	"errors"
	"fmt"
	"io"
	"log"
	"math/big"
	"net"
	"os"
	"strings"
	"sync"
	"syscall"
	"time"

	"github.com/emersion/go-smtp"
)

// ---- PKI ------------------------------------------------------------------------------------

type PKI struct {
	Root    *x509.Certificate
	rootKey *ecdsa.PrivateKey
	Pool    *x509.CertPool
	mu      sync.Mutex
	cache   map[string]tls.Certificate
}

func mkCert(cn string, isCA bool, parent *x509.Certificate, parentKey *ecdsa.PrivateKey, names []string, from, to time.Time, serial int64) (*x509.Certificate, *ecdsa.PrivateKey, []byte) {
	key, err := ecdsa.GenerateKey(elliptic.P256(), rand.Reader)
	if err != nil {
		panic(err)
	}
	tpl := &x509.Certificate{SerialNumber: big.NewInt(serial), Subject: pkix.Name{CommonName: cn}, NotBefore: from, NotAfter: to, DNSNames: names, BasicConstraintsValid: true, IsCA: isCA, KeyUsage: x509.KeyUsageDigitalSignature}
	if isCA {
		tpl.KeyUsage |= x509.KeyUsageCertSign
	} else {
		tpl.ExtKeyUsage = []x509.ExtKeyUsage{x509.ExtKeyUsageServerAuth}
	}
	p, pk := tpl, key
	if parent != nil {
		p, pk = parent, parentKey
	}
	der, err := x509.CreateCertificate(rand.Reader, tpl, p, &key.PublicKey, pk)
	if err != nil {
		panic(err)
	}
	c, _ := x509.ParseCertificate(der)
	return c, key, der
}

func NewPKI() *PKI {
	now := time.Now()
	root, rk, _ := mkCert("Verif Peers Root", true, nil, nil, nil, now.Add(-24*time.Hour), now.Add(24*time.Hour), 1)
	p := &PKI{Root: root, rootKey: rk, Pool: x509.NewCertPool(), cache: map[string]tls.Certificate{}}
	p.Pool.AddCert(root)
	return p
}

// Cert returns a server certificate of the given kind for host:
// "valid", "selfsigned", "wrongname".
func (p *PKI) Cert(host, kind string) tls.Certificate {
	p.mu.Lock()
	defer p.mu.Unlock()
	k := host + "/" + kind
	if c, ok := p.cache[k]; ok {
		return c
	}
	now := time.Now()
	var leaf *x509.Certificate
	var key *ecdsa.PrivateKey
	var der []byte
	switch kind {
	case "valid":
		leaf, key, der = mkCert(host, false, p.Root, p.rootKey, []string{host}, now.Add(-time.Hour), now.Add(24*time.Hour), 10)
	case "selfsigned":
		leaf, key, der = mkCert(host, false, nil, nil, []string{host}, now.Add(-time.Hour), now.Add(24*time.Hour), 11)
	case "wrongname":
		leaf, key, der = mkCert("other.invalid", false, p.Root, p.rootKey, []string{"other.invalid"}, now.Add(-time.Hour), now.Add(24*time.Hour), 12)
	default:
		panic("peers: unknown certificate kind " + kind)
	}
	c := tls.Certificate{Certificate: [][]byte{der}, PrivateKey: key, Leaf: leaf}
	if kind != "selfsigned" {
		// the issuing CA travels with the leaf so that DANE-TA records can name it
		c.Certificate = append(c.Certificate, p.Root.Raw)
	}
	p.cache[k] = c
	return c
}

// ---- scripted server ------------------------------------------------------------------------------

// Script describes how one MX host behaves.
type Script struct {
	Host       string
	LMTP       bool
	TLS        string // "" (STARTTLS not offered), "valid", "selfsigned", "wrongname", "broken" (offered, handshake fails)
	SMTPUTF8   bool
	RequireTLS bool
	Down       bool // connection refused
	// Reply returns the error for a stage: "mail", "rcpt" (arg = address), "data", "status" (LMTP per-recipient, arg = address)
	Reply func(stage, arg string) *smtp.SMTPError
	// DataHook, when set, decides the reply to DATA with the transaction in view.
	DataHook func(t Txn) *smtp.SMTPError
	// DropAt: close the connection instead of answering at this stage ("mail","rcpt","data")
	DropAt string
	// Drop, when set, is asked at every stage ("mail","rcpt","data","status"; arg as for Reply)
	// whether the connection is to be closed instead of answering.
	Drop func(stage, arg string) bool
}

// Txn is one transaction as seen by the server.
type Txn struct {
	Host       string
	ConnID     int
	TLS        bool
	TLSVerified bool // the client presented no cert; "verified" is a client-side notion, filled by harness from cert kind
	CertKind   string
	From       string
	MailOpts   smtp.MailOptions
	Rcpts      []string // RCPT TO arguments as sent, accepted ones
	RcptTried  []string
	Data       []byte // nil if DATA never completed
	DataOK     bool
	Order      int
}

// World is a set of scripted servers reachable through Dial.
type World struct {
	PKI *PKI

	mu      sync.Mutex
	servers map[string]*server // by host (lower-case, no trailing dot)
	txns    []*Txn
	connSeq int
	order   int
	Dials   []string
}

type server struct {
	w      *World
	script Script
	srv    *smtp.Server
	l      *pipeListener
}

func NewWorld(pki *PKI) *World {
	return &World{PKI: pki, servers: map[string]*server{}}
}

type pipeListener struct {
	conns  chan net.Conn
	closed chan struct{}
	once   sync.Once
}

func (l *pipeListener) Accept() (net.Conn, error) {
	select {
	case c := <-l.conns:
		return c, nil
	case <-l.closed:
		return nil, errors.New("listener closed")
	}
}
func (l *pipeListener) Close() error   { l.once.Do(func() { close(l.closed) }); return nil }
func (l *pipeListener) Addr() net.Addr { return pipeAddr("peer") }

type pipeAddr string

func (a pipeAddr) Network() string { return "pipe" }
func (a pipeAddr) String() string  { return string(a) }

// Add starts a scripted server for a host.
func (w *World) Add(sc Script) {
	host := strings.ToLower(strings.TrimSuffix(sc.Host, "."))
	s := &server{w: w, script: sc, l: &pipeListener{conns: make(chan net.Conn, 8), closed: make(chan struct{})}}
	be := &backend{s: s}
	s.srv = smtp.NewServer(be)
	s.srv.Domain = host
	s.srv.LMTP = sc.LMTP
	s.srv.EnableSMTPUTF8 = sc.SMTPUTF8
	s.srv.EnableREQUIRETLS = sc.RequireTLS
	s.srv.AllowInsecureAuth = true
	s.srv.ReadTimeout = 30 * time.Second
	s.srv.WriteTimeout = 30 * time.Second
	s.srv.ErrorLog = log.New(io.Discard, "", 0)
	switch sc.TLS {
	case "":
	case "broken":
		s.srv.TLSConfig = &tls.Config{GetCertificate: func(*tls.ClientHelloInfo) (*tls.Certificate, error) {
			return nil, errors.New("scripted handshake failure")
		}}
	default:
		c := w.PKI.Cert(host, sc.TLS)
		s.srv.TLSConfig = &tls.Config{Certificates: []tls.Certificate{c}}
	}
	w.mu.Lock()
	w.servers[host] = s
	w.mu.Unlock()
	go s.srv.Serve(s.l)
}

// Close stops every server.
func (w *World) Close() {
	w.mu.Lock()
	defer w.mu.Unlock()
	for _, s := range w.servers {
		s.l.Close()
		s.srv.Close()
	}
}

// Dial is the dialer handed to the targets.
func (w *World) Dial(ctx context.Context, network, addr string) (net.Conn, error) {
	host, _, err := net.SplitHostPort(addr)
	if err != nil {
		host = addr
	}
	host = strings.ToLower(strings.TrimSuffix(host, "."))
	w.mu.Lock()
	s := w.servers[host]
	w.Dials = append(w.Dials, host)
	w.mu.Unlock()
	if s == nil || s.script.Down {
		return nil, &net.OpError{Op: "dial", Net: network, Addr: pipeAddr(addr), Err: errors.New("connection refused")}
	}
	cl, sv, err := socketPair()
	if err != nil {
		return nil, err
	}
	s.l.conns <- wrapQuit(sv, s.script)
	return cl, nil
}

// socketPair returns the two ends of a kernel-buffered stream (net.Pipe is
// synchronous, and a TLS 1.3 handshake in which both sides write at once
// deadlocks on it).
func socketPair() (net.Conn, net.Conn, error) {
	fds, err := syscall.Socketpair(syscall.AF_UNIX, syscall.SOCK_STREAM|syscall.SOCK_CLOEXEC, 0)
	if err != nil {
		return nil, nil, err
	}
	var out [2]net.Conn
	for i, fd := range fds {
		f := os.NewFile(uintptr(fd), "peers-socketpair")
		c, err := net.FileConn(f)
		f.Close()
		if err != nil {
			return nil, nil, err
		}
		out[i] = c
	}
	return out[0], out[1], nil
}

// Txns returns the recorded transactions in the order they started.
func (w *World) Txns() []Txn {
	w.mu.Lock()
	defer w.mu.Unlock()
	out := make([]Txn, len(w.txns))
	for i, t := range w.txns {
		out[i] = *t
		out[i].Rcpts = append([]string{}, t.Rcpts...)
		out[i].RcptTried = append([]string{}, t.RcptTried...)
	}
	return out
}

// Forget drops the recorded transactions (long-running worlds).
func (w *World) Forget() {
	w.mu.Lock()
	w.txns = nil
	w.Dials = nil
	w.mu.Unlock()
}

type backend struct{ s *server }

func (b *backend) NewSession(c *smtp.Conn) (smtp.Session, error) {
	b.s.w.mu.Lock()
	b.s.w.connSeq++
	id := b.s.w.connSeq
	b.s.w.mu.Unlock()
	_, isTLS := c.TLSConnectionState()
	if b.s.script.Reply != nil && !isTLS {
		// stage "session": the greeting is replaced by this reply and the connection closed
		if e := b.s.script.Reply("session", ""); e != nil {
			return nil, e
		}
	}
	return &session{s: b.s, conn: c, connID: id, tls: isTLS}, nil
}

type session struct {
	s      *server
	conn   *smtp.Conn
	connID int
	tls    bool
	cur    *Txn
}

func (se *session) reply(stage, arg string) error {
	if se.s.script.DropAt == stage || (se.s.script.Drop != nil && se.s.script.Drop(stage, arg)) {
		se.conn.Close()
		return &smtp.SMTPError{Code: 421, EnhancedCode: smtp.EnhancedCode{4, 0, 0}, Message: "dropping"}
	}
	if se.s.script.Reply != nil {
		if e := se.s.script.Reply(stage, arg); e != nil {
			return e
		}
	}
	return nil
}

func (se *session) Mail(from string, opts *smtp.MailOptions) error {
	_, isTLS := se.conn.TLSConnectionState()
	se.s.w.mu.Lock()
	se.s.w.order++
	t := &Txn{Host: se.s.script.Host, ConnID: se.connID, TLS: isTLS, CertKind: se.s.script.TLS, From: from, Order: se.s.w.order}
	if opts != nil {
		t.MailOpts = *opts
	}
	se.s.w.txns = append(se.s.w.txns, t)
	se.s.w.mu.Unlock()
	se.cur = t
	return se.reply("mail", from)
}

func (se *session) Rcpt(to string, opts *smtp.RcptOptions) error {
	if se.cur == nil {
		return &smtp.SMTPError{Code: 503, Message: "no MAIL"}
	}
	se.s.w.mu.Lock()
	se.cur.RcptTried = append(se.cur.RcptTried, to)
	se.s.w.mu.Unlock()
	if err := se.reply("rcpt", to); err != nil {
		return err
	}
	se.s.w.mu.Lock()
	se.cur.Rcpts = append(se.cur.Rcpts, to)
	se.s.w.mu.Unlock()
	return nil
}

func (se *session) Data(r io.Reader) error {
	b, _ := io.ReadAll(r)
	if se.cur == nil {
		return &smtp.SMTPError{Code: 503, Message: "no MAIL"}
	}
	se.s.w.mu.Lock()
	se.cur.Data = b
	snap := *se.cur
	se.s.w.mu.Unlock()
	if err := se.reply("data", ""); err != nil {
		return err
	}
	if se.s.script.DataHook != nil {
		if e := se.s.script.DataHook(snap); e != nil {
			return e
		}
	}
	se.s.w.mu.Lock()
	se.cur.DataOK = true
	se.s.w.mu.Unlock()
	return nil
}

func (se *session) LMTPData(r io.Reader, sc smtp.StatusCollector) error {
	b, _ := io.ReadAll(r)
	if se.cur == nil {
		return &smtp.SMTPError{Code: 503, Message: "no MAIL"}
	}
	se.s.w.mu.Lock()
	se.cur.Data = b
	rc := append([]string{}, se.cur.Rcpts...)
	se.s.w.mu.Unlock()
	if err := se.reply("data", ""); err != nil {
		return err
	}
	ok := false
	if se.s.script.Drop != nil {
		// the connection is lost after the content was sent and before any
		// per-recipient reply (nothing is delivered by this transaction)
		lost := false
		for _, r := range rc {
			if se.s.script.Drop("status", r) {
				lost = true
			}
		}
		if lost {
			se.conn.Close()
			return &smtp.SMTPError{Code: 421, EnhancedCode: smtp.EnhancedCode{4, 0, 0}, Message: "dropping"}
		}
	}
	for _, r := range rc {
		var e error
		if se.s.script.Reply != nil {
			if x := se.s.script.Reply("status", r); x != nil {
				e = x
			}
		}
		if e == nil {
			ok = true
		}
		sc.SetStatus(r, e)
	}
	se.s.w.mu.Lock()
	se.cur.DataOK = ok
	se.s.w.mu.Unlock()
	return nil
}

func (se *session) Reset()        { se.cur = nil }
func (se *session) Logout() error { return nil }

// Err builds a reply.
func Err(code int, ench [3]int, msg string) *smtp.SMTPError {
	return &smtp.SMTPError{Code: code, EnhancedCode: smtp.EnhancedCode{ench[0], ench[1], ench[2]}, Message: msg}
}

var _ = fmt.Sprint

// AddUnix starts a scripted server on a unix socket (for targets without a
// dialer seam) and returns a function that stops it.
func (w *World) AddUnix(sc Script, path string) (func(), error) {
	l, err := net.Listen("unix", path)
	if err != nil {
		return nil, err
	}
	host := strings.ToLower(strings.TrimSuffix(sc.Host, "."))
	s := &server{w: w, script: sc}
	be := &backend{s: s}
	s.srv = smtp.NewServer(be)
	s.srv.Domain = host
	s.srv.LMTP = sc.LMTP
	s.srv.EnableSMTPUTF8 = sc.SMTPUTF8
	s.srv.EnableREQUIRETLS = sc.RequireTLS
	s.srv.AllowInsecureAuth = true
	s.srv.ReadTimeout = 30 * time.Second
	s.srv.WriteTimeout = 30 * time.Second
	go s.srv.Serve(quitListener{l, sc})
	return func() { l.Close(); s.srv.Close() }, nil
}

// ---- QUIT stage -------------------------------------------------------------------------------------

// go-smtp answers QUIT itself; to script a next hop that drops the connection
// instead of answering QUIT (or answers 421), the server side of the connection
// is wrapped: when a chunk read from the client starts with "QUIT" the script's
// Drop("quit", "") is asked and, if it says so, the connection is closed.
type quitConn struct {
	net.Conn
	sc Script
}

func wrapQuit(c net.Conn, sc Script) net.Conn {
	if sc.Drop == nil {
		return c
	}
	return &quitConn{Conn: c, sc: sc}
}

func (q *quitConn) Read(b []byte) (int, error) {
	n, err := q.Conn.Read(b)
	if n >= 4 && strings.EqualFold(string(b[:4]), "QUIT") && q.sc.Drop("quit", "") {
		q.Conn.Close()
		return 0, io.EOF
	}
	return n, err
}

type quitListener struct {
	net.Listener
	sc Script
}

func (l quitListener) Accept() (net.Conn, error) {
	c, err := l.Listener.Accept()
	if err != nil {
		return nil, err
	}
	return wrapQuit(c, l.sc), nil
}
