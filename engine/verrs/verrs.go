// Package verrs enumerates error values constructible from maddy's
// error-wrapping primitives (C16): leaves x wrappers up to a nesting depth.
package verrs

import (
	"context"
	"errors"
	"fmt"
	"net"
	"strings"

	"github.com/foxcpp/maddy/framework/exterrors"
)

// Val is one generated error value with what is known about it.
type Val struct {
	Desc string
	Err  error
	// Marked: 1 = some layer explicitly says temporary, 0 = explicitly
	// permanent, -1 = no layer classifies it (outermost classification wins,
	// as errors.As finds it first).
	Marked int
	// Annotated: carries SMTP code/text annotations.
	Annotated bool
	// Text fragments that must not leak for un-annotated errors.
	Secret string
}

const secret = "/etc/maddy/secret-path-0x7f"

type leaf struct {
	desc string
	mk   func() error
	mark int
	ann  bool
}

func leaves() []leaf {
	return []leaf{
		{"smtp{451 4.4.1}", func() error {
			return &exterrors.SMTPError{Code: 451, EnhancedCode: exterrors.EnhancedCode{4, 4, 1}, Message: "try again later"}
		}, 1, true},
		{"smtp{550 5.1.1}", func() error {
			return &exterrors.SMTPError{Code: 550, EnhancedCode: exterrors.EnhancedCode{5, 1, 1}, Message: "no such user"}
		}, 0, true},
		{"smtp{554 no-ench, unicode text}", func() error {
			return &exterrors.SMTPError{Code: 554, Message: "refusé \u0080 中 rejected"}
		}, 0, true},
		{"smtp{421 4.7.0 reason}", func() error {
			return &exterrors.SMTPError{Code: 421, EnhancedCode: exterrors.EnhancedCode{4, 7, 0}, Message: "policy says later", Reason: "internal reason " + secret, CheckName: "verif"}
		}, 1, true},
		{"plain", func() error { return errors.New("open " + secret + ": permission denied") }, -1, false},
		{"net.OpError(temporary)", func() error {
			return &net.OpError{Op: "dial", Net: "tcp", Err: &net.DNSError{Err: "lookup " + secret, IsTemporary: true}}
		}, 1, false},
		{"net.DNSError(notfound)", func() error { return &net.DNSError{Err: "no such host " + secret, IsNotFound: true} }, 0, false},
		{"net.DNSError(timeout)", func() error { return &net.DNSError{Err: "i/o timeout " + secret, IsTimeout: true} }, 1, false},
		{"deadline", func() error { return context.DeadlineExceeded }, 2, false},
	}
}

type wrapper struct {
	desc string
	wrap func(Val) Val
}

func wrappers() []wrapper {
	return []wrapper{
		{"WithTemporary(true)", func(v Val) Val {
			return Val{Err: exterrors.WithTemporary(v.Err, true), Marked: 1, Annotated: v.Annotated}
		}},
		{"WithTemporary(false)", func(v Val) Val {
			return Val{Err: exterrors.WithTemporary(v.Err, false), Marked: 0, Annotated: v.Annotated}
		}},
		{"WithFields", func(v Val) Val {
			return Val{Err: exterrors.WithFields(v.Err, map[string]interface{}{"remote_server": "mx.internal " + secret}), Marked: v.Marked, Annotated: v.Annotated}
		}},
		{"fmt.Errorf(%w)", func(v Val) Val {
			return Val{Err: fmt.Errorf("while doing things with %s: %w", secret, v.Err), Marked: v.Marked, Annotated: v.Annotated}
		}},
		{"SMTPError{Err, SMTPCode, SMTPEnchCode}", func(v Val) Val {
			e := &exterrors.SMTPError{
				Code:         exterrors.SMTPCode(v.Err, 451, 554),
				EnhancedCode: exterrors.SMTPEnchCode(v.Err, exterrors.EnhancedCode{0, 4, 4}),
				Message:      "Upstream failure",
				Err:          v.Err,
			}
			m := 0
			if exterrors.IsTemporary(v.Err) {
				m = 1
			}
			return Val{Err: e, Marked: m, Annotated: true}
		}},
		// literal basic code, no enhanced code, arbitrary cause (the shape of the 450 of
		// check.command and of the 554 "Malformed Date header" of the submission code)
		{"SMTPError{450, Err}", func(v Val) Val {
			return Val{Err: &exterrors.SMTPError{Code: 450, Message: "Internal server error", Err: v.Err}, Marked: 1, Annotated: true}
		}},
		{"SMTPError{554, Err}", func(v Val) Val {
			return Val{Err: &exterrors.SMTPError{Code: 554, Message: "Malformed message", Err: v.Err}, Marked: 0, Annotated: true}
		}},
	}
}

// Enumerate calls f for every value of nesting depth <= depth (deterministic order).
func Enumerate(depth int, f func(Val)) {
	ws := wrappers()
	var rec func(v Val, d int)
	rec = func(v Val, d int) {
		v.Secret = secret
		f(v)
		if d == depth {
			return
		}
		for _, w := range ws {
			if strings.HasPrefix(w.desc, "WithTemporary") && v.Annotated {
				// the tree marks raw (un-annotated) errors only; re-classifying an
				// SMTP-annotated error against its own code is not a coherent value
				continue
			}
			if v.Marked == 2 {
				// context.DeadlineExceeded is matched with errors.Is through any wrapping
				n := w.wrap(v)
				n.Desc = w.desc + "(" + v.Desc + ")"
				n.Marked = 2
				rec(n, d+1)
				continue
			}
			n := w.wrap(v)
			n.Desc = w.desc + "(" + v.Desc + ")"
			rec(n, d+1)
		}
	}
	for _, l := range leaves() {
		rec(Val{Desc: l.desc, Err: l.mk(), Marked: l.mark, Annotated: l.ann}, 0)
	}
}
