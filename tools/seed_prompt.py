import json,sys
pid=sys.argv[1]; n=sys.argv[2] if len(sys.argv)>2 else "1"
d=json.load(open('/tmp/prop-%s.json'%pid))
hint=sys.argv[3] if len(sys.argv)>3 else ""
print(f"""You are testing how well a semantic property of the open-source mail server foxcpp/maddy (Go) is protected. You have your own scratch git worktree of the repository at /tmp/wt-{pid}{'' if n=='1' else '-'+n} (work ONLY there; never touch /repo or /verif, and do not read anything under /verif).

The property (this is all the context you get about it):

{json.dumps(d,indent=1,ensure_ascii=False)}

Task: write ONE realistic change to the maddy source code in your worktree that BREAKS this property while (a) still compiling and (b) still passing the repository's existing test suite for every package you touched and the packages that import them. The change should look like something a developer could plausibly commit (a refactoring slip, an off-by-one, a misplaced statement, a wrong comparison, an optimisation that drops a needed step, two cooperating edits that each look fine alone) — not sabotage that ordinary use would expose at once. It must need something specific to manifest: a particular interleaving, a crash or fault at a particular point, a multi-step sequence of operations, an unusual input, a particular configuration. Do not edit any *_test.go file of the repository and do not change go.mod. {hint}

Also write a demonstration: a new Go test file (name it zz_seed_demo_test.go, placed in the relevant package directory of your worktree) that FAILS with your change and PASSES on the unmodified code. Verify both yourself (use `git stash` or `git diff > file; git checkout` to flip between the two states; keep the demo test file out of the patch).

Environment: no network. For every go command use: export GOFLAGS=-mod=mod GOPROXY=off GOSUMDB=off GOTOOLCHAIN=local . Run tests like: cd /tmp/wt-{pid}{'' if n=='1' else '-'+n} && go test -vet=off -count=1 ./internal/... ./framework/... (the whole suite takes about a minute; `go build ./...` fails on cmd/maddy-pam-helper for an unrelated reason — ignore that package).

Deliver, in the directory /tmp/seed-{pid}-{n}/ (create it):
  - patch.diff   : `git diff` of your source change only (no test files), applicable with `git apply` at the repository root
  - zz_seed_demo_test.go : the demonstration test, plus a file DEMO_PKG containing the package directory (relative to the repository root) it belongs in
  - meta.json    : {{"property": "{pid}", "summary": "...what the change does...", "needs": "...what must happen for it to manifest...", "files": [...], "ran": ["...commands you ran and their outcome..."]}}
Leave your worktree with the change applied. In your final answer give a 5-line summary: what you changed, why existing tests still pass, what triggers the violation.""")
