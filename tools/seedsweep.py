#!/usr/bin/env python3
"""tools/seedsweep.py [ids...] — regression sweep: applies every seeded/<id>/patch.diff to the
tree in $VERIF_REPO (default /repo; use a scratch copy), runs the check of its property (quick)
and records whether it reports a violation. Results: seeded/sweep_results.json.
Special cases: entries in ALT are expected to be caught by another property's check."""
import json, os, subprocess, sys, glob, time
V = os.path.dirname(os.path.dirname(os.path.abspath(__file__)))
REPO = os.environ.get("VERIF_REPO", "/repo")
ALT = {"C03-4": "C11", "C03-8": "C11", "C01-8": "C02", "C06-8": "C10", "C02-8": "C12", "C11-8": "C03", "C13-5": "C05"}            # caught by another check only
NEUTRAL = {"C11-2", "C18-6"}      # no longer break the property after fixes 70def2b / ce03bfd
def main():
    ids = sys.argv[1:] or sorted(os.path.basename(os.path.dirname(p)) for p in glob.glob(V + "/seeded/*/patch.diff"))
    outp = os.path.join(V, "seeded", "sweep_results.json")
    res = json.load(open(outp)) if os.path.exists(outp) else {}
    head = subprocess.run(["git", "-C", REPO, "rev-parse", "--short", "HEAD"], capture_output=True, text=True).stdout.strip()
    for sid in ids:
        prop = ALT.get(sid, sid.split("-")[0])
        patch = os.path.join(V, "seeded", sid, "patch.diff")
        assert subprocess.run(["git", "-C", REPO, "status", "--porcelain", "--untracked-files=no"], capture_output=True, text=True).stdout.strip() == "", "repo not clean"
        if subprocess.run(["git", "-C", REPO, "apply", patch]).returncode != 0:
            res[sid] = {"applied": False, "repo_head": head}
            print(sid, "PATCH-DOES-NOT-APPLY", flush=True)
            continue
        t0 = time.time()
        try:
            r = subprocess.run([os.path.join(V, "check"), prop, "quick"], cwd=V, capture_output=True, text=True, env=dict(os.environ, VERIF_NO_EVIDENCE="1"))
        finally:
            subprocess.run(["git", "-C", REPO, "checkout", "--", "."])
            subprocess.run(["git", "-C", REPO, "clean", "-fdq"])
        fps = [l.strip().replace("fingerprint: ", "") for l in r.stdout.splitlines() if l.strip().startswith("fingerprint:")]
        det = r.returncode == 1
        res[sid] = {"applied": True, "check": prop, "detected": det, "rc": r.returncode, "fingerprints": fps[:3], "wall_s": round(time.time() - t0, 1), "repo_head": head, "expected": "not detected (neutralised by a fix)" if sid in NEUTRAL else "detected"}
        print(sid, prop, "DETECTED" if det else "NOT-DETECTED", r.returncode, fps[:1], flush=True)
        json.dump(res, open(outp, "w"), indent=1, sort_keys=True)
    bad = [s for s, v in res.items() if v.get("applied") and not v.get("detected") and s not in NEUTRAL]
    print("not detected:", bad)
main()
