#!/usr/bin/env python3
"""tools/mkreport.py — regenerates the generated tables of DESIGN.md (between the
BEGIN/END GENERATED markers) from seeded/*/meta.json, mutants/results.json,
evidence/*.json and KNOWN_FINDINGS. Hand-written text is never touched."""
import json, os, glob, re
V = os.path.dirname(os.path.dirname(os.path.abspath(__file__)))


def esc(s):
    return str(s).replace("|", "\\|").replace("\n", " ")


def short(s, n):
    s = " ".join(str(s).split())
    return s if len(s) <= n else s[: n - 1] + "…"


def seeded_table():
    rows = ["| id | change (what the sub-agent did; files) | needs, to manifest | caught by |", "|---|---|---|---|"]
    for d in sorted(glob.glob(V + "/seeded/*/meta.json")):
        m = json.load(open(d))
        sid = os.path.basename(os.path.dirname(d))
        det = m.get("detected_by", "(not yet run)")
        if isinstance(det, dict):
            fp = det.get("fingerprints")
            if isinstance(fp, list):
                fp = ", ".join(fp)
            det = "%s → exit %s: %s" % (det.get("check"), det.get("exit"), fp)
        if m.get("note"):
            det += " — " + m["note"]
        files = ", ".join(os.path.basename(f) for f in m.get("files", []))
        rows.append("| %s | %s (%s) | %s | %s |" % (sid, esc(short(m.get("summary", ""), 330)), esc(files), esc(short(m.get("needs", ""), 260)), esc(short(det, 520))))
    return "\n".join(rows)


def mutants_table():
    p = V + "/mutants/results.json"
    acc = json.load(open(p)) if os.path.exists(p) else {}
    rows = ["| prop | mutant | what it breaks | result | first fingerprint |", "|---|---|---|---|---|"]
    tot = det = 0
    for mf in sorted(glob.glob(V + "/mutants/C*/*.json")):
        prop = os.path.basename(os.path.dirname(mf))
        name = os.path.basename(mf)
        m = json.load(open(mf))
        why = m.get("why") or (m.get("edits") or [{}])[0].get("why", "")
        r = acc.get(prop + "/" + name)
        tot += 1
        if r is None:
            res, fp = "not run since the accumulating record was added", ""
        else:
            res = "detected (%ss)" % r["wall_s"] if r["detected"] else "MISSED (rc=%s)" % r["rc"]
            det += 1 if r["detected"] else 0
            fp = (r.get("fingerprints") or [""])[0]
        rows.append("| %s | %s | %s | %s | `%s` |" % (prop, name[:-5], esc(short(why, 160)), res, esc(short(fp, 110))))
    rows.append("")
    rows.append("%d mutants, %d recorded as detected in `mutants/results.json`." % (tot, det))
    return "\n".join(rows)


def evidence_table():
    rows = ["| prop | tier | level | evaluations | distinct non-trivial | exhaustive within bounds | caps hit | distinct outcomes | known findings seen | wall s |", "|---|---|---|---|---|---|---|---|---|---|"]
    for f in sorted(glob.glob(V + "/evidence/C*.json")):
        e = json.load(open(f))
        c = e.get("coverage", {})
        rows.append("| %s | %s | %s | %s | %s | %s | %d | %s | %d | %s |" % (e.get("property_id"), e.get("tier"), e.get("level"), c.get("evaluations"), c.get("distinct_nontrivial"), c.get("exhaustive"), len(c.get("caps_hit", [])), c.get("distinct_outcomes"), len(c.get("known_findings_seen", {})), e.get("wall_s")))
    return "\n".join(rows)


def findings_table():
    rows = ["| prop | status | repo commit | what failed |", "|---|---|---|---|"]
    for l in open(V + "/KNOWN_FINDINGS"):
        l = l.strip()
        if l.startswith("{"):
            k = json.loads(l)
            rows.append("| %s | known (`%s`) | — | %s |" % (k["property"], esc(k["key"]), esc(short(k["what"], 420))))
        elif l.startswith("fixed:"):
            m = re.match(r"fixed: property=(\S+) (\S+) (.*)", l)
            if m:
                rows.append("| %s | fixed | %s | %s |" % (m.group(1), m.group(2), esc(short(m.group(3), 420))))
    return "\n".join(rows)


def main():
    p = V + "/DESIGN.md"
    s = open(p).read()
    for name, fn in [("seeded", seeded_table), ("mutants", mutants_table), ("evidence", evidence_table), ("findings", findings_table)]:
        b, e = "<!-- BEGIN GENERATED %s -->" % name, "<!-- END GENERATED %s -->" % name
        if b in s and e in s:
            s = s[: s.index(b) + len(b)] + "\n" + fn() + "\n" + s[s.index(e):]
    open(p, "w").write(s)


main()
