#!/usr/bin/env python3
"""tools/recordseed.py <PROP-n> <detected_by text> [note] — record in seeded/<id>/meta.json which check caught the change."""
import json, sys
i = sys.argv[1]; f = "/verif/seeded/%s/meta.json" % i
m = json.load(open(f)); m["detected_by"] = sys.argv[2]
if len(sys.argv) > 3: m["note"] = sys.argv[3]
json.dump(m, open(f, "w"), indent=1, ensure_ascii=False)
