#!/usr/bin/env python3
"""Regenerates /verif/MANIFEST.json from harness/*/check.json (single source of truth)."""
import json, os, glob
V = os.path.dirname(os.path.dirname(os.path.abspath(__file__)))
props = [json.loads(l)["id"] for l in open(os.path.join(V, "properties.jsonl")) if l.strip()]
checks, claimed = [], set()
for pid in props:
    p = os.path.join(V, "harness", pid.lower(), "check.json")
    if not os.path.exists(p):
        continue
    c = json.load(open(p))
    if c.get("disabled"):
        continue
    claimed.add(pid)
    checks.append({
        "property_id": pid,
        "quick_cmd": "./check %s quick" % pid,
        "thorough_cmd": "./check %s thorough" % pid,
        "evidence_file": "/verif/evidence/%s.json" % pid,
        "replay_cmd_template": "./check %s quick --replay {path}" % pid,
        "engine": c.get("engine", "vx"),
        "level_claimed": {"category": c.get("level", "exploration"), "text": c["level_text"], "design_ref": c.get("design_ref", "DESIGN.md §4 " + pid)},
        "level_note": c["level_note"],
        "technique": c["technique"],
    })
na_file = os.path.join(V, "tools", "not_applicable.json")
na_reasons = json.load(open(na_file)) if os.path.exists(na_file) else {}
na = [{"property_id": p, "reason": na_reasons.get(p, "check not built yet (work in progress); no claim is made for this property")} for p in props if p not in claimed]
m = {
    "version": 1,
    "setup_cmd": "./setup",
    "hooks": {
        "guard": "none: no hook is committed to /repo; harnesses, shims and rewritten copies of source files are injected at build time with `go test -overlay` (the overlay is regenerated from /repo's working tree by ./check on every run)",
        "enable": "./check builds with -overlay .build/run-*/overlay.json (virtual packages under internal/verif/, zz_verif_*_test.go files, scheduler-rewritten copies of selected files)",
        "baseline_off_cmd": "cd /repo && GOFLAGS=-mod=mod GOPROXY=off GOSUMDB=off go test -mod=mod -json -vet=off -count=1 -timeout 25m ./...",
        "source_commits": [],
        "add_only": True,
    },
    "engines": json.load(open(os.path.join(V, "tools", "engines.json"))),
    "checks": checks,
    "notes": "All checks: ./check <id> quick|thorough [--replay f]. Exit 0 held / 1 VIOLATION / 2 harness broken. Known findings and repaired defects: /verif/KNOWN_FINDINGS. Seeded property-breaking changes used to test detection: /verif/seeded/. See DESIGN.md.",
    "not_applicable": na,
}
json.dump(m, open(os.path.join(V, "MANIFEST.json"), "w"), indent=1)
print("claimed:", sorted(claimed), "not claimed:", [x["property_id"] for x in na])
