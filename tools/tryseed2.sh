#!/bin/bash
# tools/tryseed2.sh <PROP> <abs patch.diff> [tier] — like tryseed.sh but on a scratch worktree
# of /repo HEAD (VERIF_REPO), so /repo itself is never modified.
set -u
prop=$1; patch=$2; tier=${3:-quick}; wt=/tmp/tryrepo-$prop-$$
git -C /repo worktree add -q --detach $wt HEAD || exit 2
trap "git -C /repo worktree remove --force $wt; git -C /repo worktree prune" EXIT
git -C $wt apply "$patch" || { echo "patch does not apply"; exit 2; }
cd /verif; VERIF_REPO=$wt VERIF_NO_EVIDENCE=1 ./check "$prop" "$tier" 2>&1 | cut -c1-700 | grep -E "VIOLATION|fingerprint|detail|^$prop|HARNESS" | head -30
echo "check exit=${PIPESTATUS[0]}"
