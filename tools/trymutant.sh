#!/bin/bash
# tools/trymutant.sh <PROP> <mutant file glob> — run mutants of a property on a scratch worktree of /repo HEAD
set -u
prop=$1; pat=$2; wt=/tmp/mutrepo-$prop-$$
git -C /repo worktree add -q --detach $wt HEAD || exit 2
trap "git -C /repo worktree remove --force $wt; git -C /repo worktree prune" EXIT
cd /verif; VERIF_REPO=$wt VERIF_MUTANT_ONLY="$pat" python3 mutants/run.py $prop 2>&1 | tail -3
