#!/bin/bash
# tools/tryseed.sh <PROP> <patch.diff> [tier] — apply a seeded change to /repo, run the check, restore /repo.
set -u
prop=$1; patch=$2; tier=${3:-quick}
cd /repo || exit 2
if [ -n "$(git status --porcelain --untracked-files=no)" ]; then echo "/repo not clean"; exit 2; fi
git apply "$patch" || { echo "patch does not apply"; exit 2; }
cd /verif; VERIF_NO_EVIDENCE=1 ./check "$prop" "$tier" 2>&1 | cut -c1-700 | grep -E "VIOLATION|fingerprint|detail|^$prop|HARNESS|KNOWN" | head -30
rc=${PIPESTATUS[0]}
git -C /repo checkout -- . ; git -C /repo clean -fdq -- . 2>/dev/null
echo "check exit=$rc"
