#!/bin/bash
# tools/confirmseed.sh <PROP> <n> — confirm a sub-agent's seeded change in a fresh scratch
# worktree: (1) the suite passes with the change, (2) the demo fails with it, (3) passes without.
# On success copies it to /verif/seeded/<PROP>-<n>/ ; always removes the worktree.
set -u
prop=$1; n=$2; src=/tmp/seed-$prop-$n; wt=/tmp/confirm-$prop-$n
export GOFLAGS=-mod=mod GOPROXY=off GOSUMDB=off GOTOOLCHAIN=local
base=$(git -C /repo rev-parse HEAD)
git -C /repo worktree add -q --detach $wt HEAD || exit 2
trap "git -C /repo worktree remove --force $wt; git -C /repo worktree prune" EXIT
cd $wt
git apply $src/patch.diff || { echo "CONFIRM-FAIL: patch does not apply to $base"; exit 1; }
pkgs=$(go list ./internal/... ./framework/... . 2>/dev/null | tr '\n' ' ')
if ! go test -vet=off -count=1 -timeout 5m $pkgs > $src/suite.log 2>&1; then
  # internal/table has a test (TestFileReload_Removed) that hangs now and then under load: retry failing packages once
  bad=$(grep -E "^FAIL\s+github" $src/suite.log | awk '{print $2}' | tr '\n' ' ')
  echo "retrying: $bad"
  ok=0
  if [ -n "$bad" ]; then for try in 1 2 3; do if go test -vet=off -count=1 -timeout 3m $bad >> $src/suite.log 2>&1; then ok=1; break; fi; done; fi
  if [ $ok != 1 ]; then echo "CONFIRM-FAIL: suite fails with the change"; grep -E "^(FAIL|---)" $src/suite.log | head; exit 1; fi
fi
echo "suite passes with the change ($(grep -c '^ok' $src/suite.log) packages ok)"
pkg=$(cat $src/DEMO_PKG | tr -d '[:space:]')
cp $src/zz_seed_demo_test.go $wt/$pkg/
if go test -vet=off -count=1 -run 'Seed' ./$pkg/ > $src/demo_with.log 2>&1; then echo "CONFIRM-FAIL: demo passes with the change"; exit 1; fi
echo "demo fails with the change"
git apply -R $src/patch.diff
if ! go test -vet=off -count=1 -run 'Seed' ./$pkg/ > $src/demo_without.log 2>&1; then echo "CONFIRM-FAIL: demo fails without the change"; tail -5 $src/demo_without.log; exit 1; fi
echo "demo passes without the change"
mkdir -p /verif/seeded/$prop-$n
cp $src/patch.diff $src/zz_seed_demo_test.go $src/DEMO_PKG /verif/seeded/$prop-$n/
python3 - "$src" "$prop" "$n" "$base" <<'P'
import json,sys
src,prop,n,base=sys.argv[1:5]
try: m=json.load(open(src+'/meta.json'))
except Exception as e: m={"property":prop,"summary":"(agent meta unreadable: %s)"%e}
m["base_commit"]=base
m["confirmed"]=["fresh worktree at %s: patch applied, `go test -vet=off -count=1` of all ./internal/... ./framework/... . packages passes"%base[:7],"demo test (go test -run Seed ./%s/) fails with the change"%open(src+'/DEMO_PKG').read().strip(),"demo test passes after `git apply -R`"]
json.dump(m,open('/verif/seeded/%s-%s/meta.json'%(prop,n),'w'),indent=1,ensure_ascii=False)
P
echo "CONFIRMED $prop-$n"
